#!/bin/sh
# Runs every check registered in MANIFEST.json (quick tier) and reports which ones raise an
# alarm on the current tree. Used before committing contract or engine changes.
cd "$(dirname "$0")"
ids=$(python3 -c "import json;print(' '.join(c['property_id'] for c in json.load(open('MANIFEST.json'))['checks']))")
[ -n "$1" ] && ids="$*"
fail=0
for id in $ids; do
  out=$(timeout 1500 ./check $id --tier quick 2>&1); rc=$?
  echo "$out" | grep -E "^C[0-9]+:|VIOLATION|ENGINE-FAULT" | cut -c1-200
  [ $rc -ne 0 ] && { echo "  -> $id exit $rc"; fail=1; }
done
exit $fail
