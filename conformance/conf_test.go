// Package conformance samples the ASSUMED contracts of /verif/contracts/ext against the real
// libraries the repository links (same versions, through /repo's go.mod). It decides nothing
// about /repo: a failure here means an assumption the proofs rest on is wrong (an engine-side
// fault, exit 2), never a property violation. Seeded by VERIF_SEED.
package conformance

import (
	"errors"
	"fmt"
	"math"
	"math/big"
	"math/rand"
	"os"
	"strconv"
	"strings"
	"testing"
	"time"
	"unicode/utf8"

	"github.com/shopspring/decimal"
)

func rng() *rand.Rand {
	s, _ := strconv.Atoi(os.Getenv("VERIF_SEED"))
	return rand.New(rand.NewSource(int64(s) + 1))
}

const N = 20000

func randDec(r *rand.Rand) decimal.Decimal {
	coef := r.Int63n(2_000_000_000_000_000) - 1_000_000_000_000_000
	switch r.Intn(6) {
	case 0:
		coef = int64(r.Intn(21) - 10)
	case 1:
		coef = r.Int63n(2000) - 1000
	}
	return decimal.New(coef, int32(r.Intn(19)-12))
}

func rat(d decimal.Decimal) *big.Rat { return d.Rat() }

// roundHA: round half away from zero to an integer (prelude roundHA)
func roundHA(x *big.Rat) *big.Int {
	neg := x.Sign() < 0
	a := new(big.Rat).Abs(x)
	a.Add(a, big.NewRat(1, 2))
	q := new(big.Int).Quo(a.Num(), a.Denom()) // floor for non-negative
	if neg {
		q.Neg(q)
	}
	return q
}
func truncR(x *big.Rat) *big.Int { return new(big.Int).Quo(x.Num(), x.Denom()) } // big.Int.Quo truncates toward zero
func floorR(x *big.Rat) *big.Int {
	q := new(big.Int).Div(x.Num(), x.Denom()) // Euclidean; denominator positive => floor
	return q
}
func pow10(p int) *big.Rat {
	v := new(big.Int).Exp(big.NewInt(10), big.NewInt(int64(abs(p))), nil)
	if p >= 0 {
		return new(big.Rat).SetInt(v)
	}
	return new(big.Rat).SetFrac(big.NewInt(1), v)
}
func abs(i int) int {
	if i < 0 {
		return -i
	}
	return i
}
func roundPlaces(x *big.Rat, p int) *big.Rat {
	s := new(big.Rat).Mul(x, pow10(p))
	return new(big.Rat).Quo(new(big.Rat).SetInt(roundHA(s)), pow10(p))
}
func eq(t *testing.T, what string, got, want *big.Rat, args ...any) {
	t.Helper()
	if got.Cmp(want) != 0 {
		t.Fatalf("ASSUMPTION-REFUTED %s: got %s want %s (args %v)", what, got.RatString(), want.RatString(), args)
	}
}

func TestDecimalArithmetic(t *testing.T) {
	r := rng()
	for i := 0; i < N; i++ {
		a, b := randDec(r), randDec(r)
		eq(t, "Decimal.Add", rat(a.Add(b)), new(big.Rat).Add(rat(a), rat(b)), a, b)
		eq(t, "Decimal.Sub", rat(a.Sub(b)), new(big.Rat).Sub(rat(a), rat(b)), a, b)
		eq(t, "Decimal.Mul", rat(a.Mul(b)), new(big.Rat).Mul(rat(a), rat(b)), a, b)
		eq(t, "Decimal.Neg", rat(a.Neg()), new(big.Rat).Neg(rat(a)), a)
		eq(t, "Decimal.Abs", rat(a.Abs()), new(big.Rat).Abs(rat(a)), a)
		if a.Equal(b) != (rat(a).Cmp(rat(b)) == 0) || a.LessThan(b) != (rat(a).Cmp(rat(b)) < 0) || a.GreaterThan(b) != (rat(a).Cmp(rat(b)) > 0) {
			t.Fatalf("ASSUMPTION-REFUTED Decimal comparison %v %v", a, b)
		}
		if a.IsZero() != (rat(a).Sign() == 0) || a.IsNegative() != (rat(a).Sign() < 0) || a.Sign() != rat(a).Sign() {
			t.Fatalf("ASSUMPTION-REFUTED Decimal sign %v", a)
		}
		eq(t, "Decimal.Floor", rat(a.Floor()), new(big.Rat).SetInt(floorR(rat(a))), a)
		eq(t, "Decimal.Ceil", rat(a.Ceil()), new(big.Rat).Neg(new(big.Rat).SetInt(floorR(new(big.Rat).Neg(rat(a))))), a)
		eq(t, "Decimal.Truncate(0)", rat(a.Truncate(0)), new(big.Rat).SetInt(truncR(rat(a))), a)
		p := r.Intn(10)
		eq(t, "Decimal.Round", rat(a.Round(int32(p))), roundPlaces(rat(a), p), a, p)
		// Exponent: rounding to at least -exponent places leaves the value unchanged
		if pe := int(-a.Exponent()) + r.Intn(5); pe >= 0 && pe < 40 {
			eq(t, "Decimal.Exponent (round to >= -exponent places is the identity)", roundPlaces(rat(a), pe), rat(a), a, pe)
		}
		sh := r.Intn(7) - 3
		eq(t, "Decimal.Shift", rat(a.Shift(int32(sh))), new(big.Rat).Mul(rat(a), pow10(sh)), a, sh)
		if tr := truncR(rat(a)); tr.IsInt64() && a.IntPart() != tr.Int64() {
			t.Fatalf("ASSUMPTION-REFUTED Decimal.IntPart %v", a)
		}
		if !b.IsZero() {
			q := new(big.Rat).Quo(rat(a), rat(b))
			eq(t, "Decimal.Div (16 places, half away)", rat(a.Div(b)), roundPlaces(q, 16), a, b)
			tq := new(big.Rat).SetInt(truncR(q))
			eq(t, "Decimal.Mod", rat(a.Mod(b)), new(big.Rat).Sub(rat(a), new(big.Rat).Mul(rat(b), tq)), a, b)
			qq, rr := a.QuoRem(b, 0)
			eq(t, "Decimal.QuoRem q", rat(qq), tq, a, b)
			eq(t, "Decimal.QuoRem r", rat(rr), new(big.Rat).Sub(rat(a), new(big.Rat).Mul(rat(b), tq)), a, b)
		}
		// String / NewFromString are inverse
		back, err := decimal.NewFromString(a.String())
		if err != nil || !back.Equal(a) {
			t.Fatalf("ASSUMPTION-REFUTED Decimal.String/NewFromString %v", a)
		}
	}
	for _, v := range []int64{0, 1, -1, math.MaxInt32, math.MinInt32, math.MaxInt64, math.MinInt64} {
		eq(t, "NewFromInt", rat(decimal.NewFromInt(v)), new(big.Rat).SetInt64(v), v)
	}
}

func TestDecimalFloat(t *testing.T) {
	r := rng()
	two53 := new(big.Rat).SetInt(new(big.Int).Lsh(big.NewInt(1), 53))
	for i := 0; i < N; i++ {
		f := (r.Float64() - 0.5) * math.Pow(10, float64(r.Intn(40)-20))
		if r.Intn(4) == 0 {
			f = float64(r.Int63n(1<<53) - 1<<52)
		}
		d := decimal.NewFromFloat(f)
		fr := new(big.Rat).SetFloat64(f)
		diff := new(big.Rat).Sub(rat(d), fr)
		diff.Abs(diff).Mul(diff, two53)
		if diff.Cmp(new(big.Rat).Abs(fr)) > 0 {
			t.Fatalf("ASSUMPTION-REFUTED NewFromFloat relative error for %v: %v", f, d)
		}
		if f == math.Trunc(f) && math.Abs(f) <= 1<<53 && rat(d).Cmp(fr) != 0 {
			t.Fatalf("ASSUMPTION-REFUTED NewFromFloat exact on integers: %v -> %v", f, d)
		}
		a := randDec(r)
		g := a.InexactFloat64()
		gr := new(big.Rat).SetFloat64(g)
		d2 := new(big.Rat).Sub(gr, rat(a))
		d2.Abs(d2).Mul(d2, two53)
		if d2.Cmp(new(big.Rat).Abs(rat(a))) > 0 {
			t.Fatalf("ASSUMPTION-REFUTED InexactFloat64 relative error for %v: %v", a, g)
		}
	}
	for _, f := range []float64{math.Inf(1), math.Inf(-1), math.NaN()} {
		func() {
			defer func() {
				if recover() == nil {
					t.Fatalf("ASSUMPTION-REFUTED NewFromFloat(%v) was expected to panic (it is a precondition)", f)
				}
			}()
			decimal.NewFromFloat(f)
		}()
	}
	func() {
		defer func() {
			if recover() == nil {
				t.Fatalf("ASSUMPTION-REFUTED Decimal.Div by zero was expected to panic (it is a precondition)")
			}
		}()
		decimal.NewFromInt(1).Div(decimal.Zero)
	}()
}

// ---- package time ---------------------------------------------------------------------------

func randTime(r *rand.Rand) time.Time {
	y := r.Intn(9999) + 1
	if r.Intn(5) == 0 {
		y = r.Intn(3)
	}
	loc := time.UTC
	if r.Intn(2) == 0 {
		loc = time.FixedZone("", (r.Intn(27)-13)*3600+r.Intn(4)*900)
	}
	return time.Date(y, time.Month(r.Intn(12)+1), r.Intn(28)+1, r.Intn(24), r.Intn(60), r.Intn(60), r.Intn(1_000_000_000), loc)
}
func daysIn(y int, m time.Month) int { return time.Date(y, m+1, 0, 0, 0, 0, 0, time.UTC).Day() }
func floorDiv(a, b int) int {
	q := a / b
	if a%b != 0 && (a < 0) != (b < 0) {
		q--
	}
	return q
}
func monthIdx(y, mo, n int) int  { return y*12 + (mo - 1) + n }
func yearAfter(y, mo, n int) int { return floorDiv(monthIdx(y, mo, n), 12) }
func monthAfter(y, mo, n int) int {
	i := monthIdx(y, mo, n)
	return i - 12*floorDiv(i, 12) + 1
}

func TestTime(t *testing.T) {
	r := rng()
	day := big.NewInt(86400_000_000_000)
	for i := 0; i < N; i++ {
		tm := randTime(r)
		// instant in ns as a big integer (UnixNano overflows outside 1678..2262)
		inst := new(big.Int).Mul(big.NewInt(tm.Unix()), big.NewInt(1_000_000_000))
		inst.Add(inst, big.NewInt(int64(tm.Nanosecond())))
		// UnixMicro == floor(inst / 1000)
		fl := new(big.Int).Div(inst, big.NewInt(1000)) // Euclidean division = floor for positive divisor
		if fl.IsInt64() && tm.UnixMicro() != fl.Int64() {
			t.Fatalf("ASSUMPTION-REFUTED UnixMicro floor: %v", tm)
		}
		// UTC: instant mod day == civil time of day
		u := tm.UTC()
		tod := int64(((u.Hour()*60+u.Minute())*60+u.Second()))*1_000_000_000 + int64(u.Nanosecond())
		if new(big.Int).Mod(inst, day).Int64() != tod {
			t.Fatalf("ASSUMPTION-REFUTED UTC instant mod day == time of day: %v", tm)
		}
		if _, off := u.Zone(); off != 0 {
			t.Fatalf("ASSUMPTION-REFUTED UTC() offset")
		}
		// whole-hour / whole-minute offsets keep minute / second fields in the UTC view
		_, off := tm.Zone()
		if off%3600 == 0 && u.Minute() != tm.Minute() || off%60 == 0 && (u.Second() != tm.Second() || u.Nanosecond() != tm.Nanosecond()) {
			t.Fatalf("ASSUMPTION-REFUTED offset leaves sub-hour fields: %v", tm)
		}
		// Add within the second changes only the nanosecond field
		d := time.Duration(r.Intn(1_000_000_000) - tm.Nanosecond())
		a := tm.Add(d)
		if a.Nanosecond() != tm.Nanosecond()+int(d) || a.Second() != tm.Second() || a.Minute() != tm.Minute() || a.Hour() != tm.Hour() || a.Day() != tm.Day() || a.Month() != tm.Month() || a.Year() != tm.Year() {
			t.Fatalf("ASSUMPTION-REFUTED Add within a second: %v + %v = %v", tm, d, a)
		}
		// Add moves the instant by d and keeps the offset
		d2 := time.Duration(r.Int63n(int64(400*24*time.Hour))) - 200*24*time.Hour
		b := tm.Add(d2)
		if b.Sub(tm) != d2 {
			t.Fatalf("ASSUMPTION-REFUTED Add instant")
		}
		if _, o2 := b.Zone(); o2 != off {
			t.Fatalf("ASSUMPTION-REFUTED Add keeps offset")
		}
		// AddDate: month arithmetic, day overflow, pure day addition
		n := r.Intn(241) - 120
		yrs, mos := n/12, n%12
		c := tm.AddDate(yrs, mos, 0)
		y2, m2 := yearAfter(tm.Year(), int(tm.Month()), n), monthAfter(tm.Year(), int(tm.Month()), n)
		if y2 >= 0 && y2 <= 9999 {
			if c.Hour() != tm.Hour() || c.Minute() != tm.Minute() || c.Second() != tm.Second() || c.Nanosecond() != tm.Nanosecond() {
				t.Fatalf("ASSUMPTION-REFUTED AddDate keeps time of day: %v %d", tm, n)
			}
			if tm.Day() <= daysIn(y2, time.Month(m2)) {
				if c.Year() != y2 || int(c.Month()) != m2 || c.Day() != tm.Day() {
					t.Fatalf("ASSUMPTION-REFUTED AddDate month arithmetic: %v + %d months = %v (want %d-%d)", tm, n, c, y2, m2)
				}
			} else {
				y3, m3 := yearAfter(y2, m2, 1), monthAfter(y2, m2, 1)
				if c.Year() != y3 || int(c.Month()) != m3 || c.Day() != tm.Day()-daysIn(y2, time.Month(m2)) {
					t.Fatalf("ASSUMPTION-REFUTED AddDate day overflow: %v + %d months = %v", tm, n, c)
				}
			}
		}
		dd := r.Intn(2001) - 1000
		e := tm.AddDate(0, 0, dd)
		if e.Sub(tm) != time.Duration(dd)*24*time.Hour {
			t.Fatalf("ASSUMPTION-REFUTED AddDate days move the instant by whole days (fixed zones)")
		}
		// Duration.Truncate
		dv, m := time.Duration(r.Int63()-r.Int63()), time.Duration(r.Int63n(int64(time.Hour))+1)
		if dv.Truncate(m) != (dv/m)*m || dv.Truncate(0) != dv || dv.Truncate(-m) != dv {
			t.Fatalf("ASSUMPTION-REFUTED Duration.Truncate")
		}
		if dv.Microseconds() != int64(dv)/1000 {
			t.Fatalf("ASSUMPTION-REFUTED Duration.Microseconds")
		}
		// same offset: civil tuples order as instants
		o := randTime(r).In(tm.Location())
		ck := func(x time.Time) [7]int {
			return [7]int{x.Year(), int(x.Month()), x.Day(), x.Hour(), x.Minute(), x.Second(), x.Nanosecond()}
		}
		less := func(a, b [7]int) bool {
			for k := range a {
				if a[k] != b[k] {
					return a[k] < b[k]
				}
			}
			return false
		}
		if tm.Before(o) != less(ck(tm), ck(o)) || tm.Equal(o) != (ck(tm) == ck(o)) {
			t.Fatalf("ASSUMPTION-REFUTED civil order at equal offset: %v %v", tm, o)
		}
		// Format/Parse with a DateTime layout truncates to the layout
		for _, l := range []string{"2006T", "2006-01T", "2006-01-02T", "2006-01-02T15:04:05Z07:00", "2006-01-02T15:04:05.000Z07:00"} {
			if tm.Year() < 1 {
				continue
			}
			p, err := time.Parse(l, tm.Format(l))
			if err != nil {
				t.Fatalf("ASSUMPTION-REFUTED Parse(Format) fails for %q on %v: %v", l, tm, err)
			}
			if p.Year() != tm.Year() || strings.Contains(l, "-01") && p.Month() != tm.Month() {
				t.Fatalf("ASSUMPTION-REFUTED Parse(Format) year/month %q %v", l, tm)
			}
		}
	}
	ref := time.Date(0, time.January, 1, 0, 0, 0, 0, time.UTC)
	if ref.Year() != 0 || ref.Month() != 1 || ref.Day() != 1 || ref.Hour() != 0 {
		t.Fatalf("ASSUMPTION-REFUTED time.Date reference day")
	}
}

// ---- strings, utf8, errors, fmt --------------------------------------------------------------

func randStr(r *rand.Rand) string {
	alpha := []string{"a", "b", "/", "'", "\\", "é", "😀", " ", "0", "", "ab", "\x80"}
	var b strings.Builder
	for k := r.Intn(8); k > 0; k-- {
		b.WriteString(alpha[r.Intn(len(alpha))])
	}
	return b.String()
}

func TestStrings(t *testing.T) {
	r := rng()
	for i := 0; i < N; i++ {
		s, p := randStr(r), randStr(r)
		idx := strings.Index(s, p)
		want := -1
		for k := 0; k+len(p) <= len(s); k++ {
			if s[k:k+len(p)] == p {
				want = k
				break
			}
		}
		if idx != want || strings.Contains(s, p) != (want >= 0) {
			t.Fatalf("ASSUMPTION-REFUTED strings.Index/Contains %q %q", s, p)
		}
		if strings.HasPrefix(s, p) != (len(s) >= len(p) && s[:len(p)] == p) || strings.HasSuffix(s, p) != (len(s) >= len(p) && s[len(s)-len(p):] == p) {
			t.Fatalf("ASSUMPTION-REFUTED HasPrefix/HasSuffix")
		}
		tp := strings.TrimPrefix(s, p)
		if strings.HasPrefix(s, p) && tp != s[len(p):] || !strings.HasPrefix(s, p) && tp != s {
			t.Fatalf("ASSUMPTION-REFUTED TrimPrefix")
		}
		ts := strings.TrimSuffix(s, p)
		if strings.HasSuffix(s, p) && ts != s[:len(s)-len(p)] || !strings.HasSuffix(s, p) && ts != s {
			t.Fatalf("ASSUMPTION-REFUTED TrimSuffix")
		}
		if !strings.HasPrefix(s, strings.TrimRight(s, p)) || !strings.HasSuffix(s, strings.TrimLeft(s, p)) {
			t.Fatalf("ASSUMPTION-REFUTED TrimRight/TrimLeft yield a prefix/suffix")
		}
		// Split(s, "") explodes into UTF-8 characters
		parts := strings.Split(s, "")
		if len(parts) != utf8.RuneCountInString(s) || strings.Join(parts, "") != s {
			t.Fatalf("ASSUMPTION-REFUTED Split(s, \"\") %q", s)
		}
		if sep := "/"; len(strings.Split(s, sep)) < 1 || strings.Join(strings.Split(s, sep), sep) != s {
			t.Fatalf("ASSUMPTION-REFUTED Split non-empty separator")
		}
		// []rune / string(runes[a:b])
		rs := []rune(s)
		if len(rs) != utf8.RuneCountInString(s) || len(rs) > len(s) {
			t.Fatalf("ASSUMPTION-REFUTED []rune length")
		}
		if len([]byte(s)) != len(s) {
			t.Fatalf("ASSUMPTION-REFUTED []byte length")
		}
		// Sprintf of a constant format is a function of its operands
		x, y := r.Intn(100), r.Intn(100)
		if fmt.Sprintf("%s%02d:%02d", p, x, y) != fmt.Sprintf("%s%02d:%02d", p, x, y) || fmt.Sprintf("%v", x) != strconv.Itoa(x) || fmt.Sprintf("%s", s) != s || fmt.Sprintf("%d", -x) != strconv.Itoa(-x) {
			t.Fatalf("ASSUMPTION-REFUTED Sprintf")
		}
	}
}

func TestErrors(t *testing.T) {
	s1, s2 := errors.New("s1"), errors.New("s2")
	if errors.Join() != nil || errors.Join(nil, nil) != nil || errors.Join(nil, s1) == nil {
		t.Fatalf("ASSUMPTION-REFUTED errors.Join nil-ness")
	}
	j := errors.Join(nil, fmt.Errorf("x: %w", s1))
	if !errors.Is(j, s1) || errors.Is(j, s2) {
		t.Fatalf("ASSUMPTION-REFUTED errors.Is through Join and %%w")
	}
	w := fmt.Errorf("%w: %v and %w", s1, 3, s2)
	if !errors.Is(w, s1) || !errors.Is(w, s2) || errors.Is(fmt.Errorf("%v", s1), s1) {
		t.Fatalf("ASSUMPTION-REFUTED fmt.Errorf %%w wrapping")
	}
}
