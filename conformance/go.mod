module verifconformance

go 1.22.2

require (
	github.com/google/fhir/go v0.7.4
	github.com/shopspring/decimal v1.4.0
	github.com/verily-src/fhirpath-go v0.0.0
	google.golang.org/protobuf v1.34.1
)

require github.com/golang/protobuf v1.5.4 // indirect

replace github.com/verily-src/fhirpath-go => /repo
