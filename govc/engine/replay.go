package engine

import (
	"bytes"
	"context"
	"encoding/json"
	"fmt"
	"os"
	"os/exec"
	"path/filepath"
	"strings"
	"time"
)

type ReplayResult struct {
	Inputs     map[string]string
	Note       string
	Test       string
	PkgDir     string
	Output     string
	Reproduced bool
}

// RunOverlayTest injects an in-package test file through -overlay and runs it.
func RunOverlayTest(repo, pkgDir, test string) (string, bool) {
	tmp, err := os.MkdirTemp("", "govc-replay-")
	if err != nil {
		return err.Error(), false
	}
	defer os.RemoveAll(tmp)
	src := filepath.Join(tmp, "verif_replay_test.go")
	os.WriteFile(src, []byte(test), 0o644)
	ov := map[string]any{"Replace": map[string]string{filepath.Join(repo, pkgDir, "verif_replay_test.go"): src}}
	ovb, _ := json.Marshal(ov)
	ovf := filepath.Join(tmp, "ov.json")
	os.WriteFile(ovf, ovb, 0o644)
	ctx, cancel := context.WithTimeout(context.Background(), 180*time.Second)
	defer cancel()
	cmd := exec.CommandContext(ctx, "go", "test", "-overlay", ovf, "-vet=off", "-count=1", "-timeout", "60s", "-run", "TestVerifReplay", "-v", "./"+pkgDir)
	cmd.Dir = repo
	cmd.Env = append(os.Environ(), "GOFLAGS=-mod=mod", "GOPROXY=off", "GOSUMDB=off", "GOTOOLCHAIN=local")
	var out bytes.Buffer
	cmd.Stdout = &out
	cmd.Stderr = &out
	err = cmd.Run()
	return out.String(), err == nil
}

// Replay is filled in by replay_render.go; this default only records the model.
func Replay(e *Engine, rep *FuncReport, ob *Obligation) ReplayResult {
	res := ReplayResult{Inputs: map[string]string{}}
	vals := parseGetValue(ob.Model)
	for _, p := range rep.Params {
		if v, ok := vals[p.Term]; ok {
			res.Inputs[p.Name] = v
		}
	}
	if len(res.Inputs) == 0 {
		res.Note = "solver returned no values for the parameters"
		return res
	}
	return renderAndRun(e, rep, ob, vals, res)
}

// parseGetValue parses "((a v) (b v) ...)" after the sat line.
func parseGetValue(out string) map[string]string {
	m := map[string]string{}
	i := strings.Index(out, "((")
	if i < 0 {
		return m
	}
	toks := sexprTokens(out[i:])
	// toks[0] == "(" ; then pairs ( name value )
	pos := 1
	for pos < len(toks) && toks[pos] == "(" {
		name, n := readSort(toks, pos+1)
		val, n2 := readSort(toks, n)
		m[name] = val
		pos = n2 + 1
	}
	return m
}

var _ = fmt.Sprintf
