package engine

import (
	"bytes"
	"context"
	"fmt"
	"os"
	"os/exec"
	"path/filepath"
	"strings"
	"sync"
	"time"
)

const smtHeader = `(set-option :produce-models true)
(set-logic ALL)
`

const z3Header = `(set-option :smt.mbqi true)
`

// query text for one obligation: preamble + script prefix + negated goal.
func (rep *FuncReport) queryFor(ob *Obligation) string {
	var b strings.Builder
	b.WriteString(rep.Preamble)
	for i, it := range rep.items {
		if i >= ob.Index {
			break
		}
		if it.kind == 0 {
			b.WriteString(it.text)
			b.WriteByte('\n')
		} else if it.ob.Kind != "vacuity" {
			// earlier obligations are assumed (assert-then-assume): already present as items
		}
	}
	if ob.Kind == "vacuity" {
		fmt.Fprintf(&b, "(assert %s)\n", ob.Reach)
	} else {
		fmt.Fprintf(&b, "(assert (and %s (not %s)))\n", ob.Reach, ob.Cond)
	}
	return b.String()
}

// batchScript: the whole function in one incremental script (push/pop per obligation).
func (rep *FuncReport) batchScript(timeoutMs int, light bool) (string, []*Obligation) {
	var b strings.Builder
	b.WriteString(smtHeader)
	fmt.Fprintf(&b, "(set-option :timeout %d)\n", timeoutMs)
	pre := rep.Preamble
	if light {
		pre = rep.LightPreamble
	}
	b.WriteString(pre)
	var order []*Obligation
	for _, it := range rep.items {
		if it.kind == 0 {
			if light && heavyText(it.text, rep.RecSyms) {
				continue // dropping an assumption is sound: it only weakens the hypotheses
			}
			b.WriteString(it.text)
			b.WriteByte('\n')
			continue
		}
		ob := it.ob
		if ob.Static || ob.Status == "discharged" {
			continue
		}
		if light && (ob.Kind == "vacuity" || heavyText(ob.Reach+ob.Cond, rep.RecSyms)) {
			continue
		}
		b.WriteString("(push 1)\n")
		if ob.Kind == "vacuity" {
			fmt.Fprintf(&b, "(set-option :timeout 1500)\n(assert %s)\n", ob.Reach)
		} else {
			fmt.Fprintf(&b, "(assert (and %s (not %s)))\n", ob.Reach, ob.Cond)
		}
		b.WriteString("(check-sat)\n(pop 1)\n")
		if ob.Kind == "vacuity" {
			fmt.Fprintf(&b, "(set-option :timeout %d)\n", timeoutMs)
		}
		order = append(order, ob)
	}
	return b.String(), order
}

type solverSpec struct {
	name string
	args func(file string, timeoutS int) []string
	bin  string
}

var solvers = []solverSpec{
	{name: "z3-5.1.0", bin: "z3-new", args: func(f string, t int) []string { return []string{"-smt2", fmt.Sprintf("-T:%d", t), f} }},
	{name: "z3-4.8.12", bin: "z3", args: func(f string, t int) []string { return []string{"-smt2", fmt.Sprintf("-T:%d", t), f} }},
	{name: "cvc5-1.0.3", bin: "cvc5", args: func(f string, t int) []string {
		return []string{"--lang=smt2", "--incremental", "--strings-exp", fmt.Sprintf("--tlimit=%d", t*1000), f}
	}},
}

func SolverVersions() string {
	return "z3-new (5.1.0) -smt2 -T:<t> <file>; z3 (4.8.12) -smt2 -T:<t> <file>; cvc5 (1.0.3) --lang=smt2 --incremental --strings-exp --tlimit=<ms> <file>"
}

type solveResult struct {
	status  string // unsat, sat, unknown, timeout, error
	out     string
	backend string
	secs    float64
}

func runSolver(ctx context.Context, s solverSpec, file string, timeoutS int) solveResult {
	start := time.Now()
	cctx, cancel := context.WithTimeout(ctx, time.Duration(timeoutS+5)*time.Second)
	defer cancel()
	cmd := exec.CommandContext(cctx, s.bin, s.args(file, timeoutS)...)
	var out bytes.Buffer
	cmd.Stdout = &out
	cmd.Stderr = &out
	_ = cmd.Run()
	res := solveResult{out: out.String(), backend: s.name, secs: time.Since(start).Seconds()}
	// the answer is the first output line that is not a solver warning
	first := ""
	for _, l := range strings.Split(res.out, "\n") {
		l = strings.TrimSpace(l)
		if l == "" || strings.HasPrefix(l, "WARNING") || strings.HasPrefix(l, "(warning") {
			continue
		}
		first = l
		break
	}
	switch first {
	case "unsat", "sat", "unknown":
		res.status = first
	case "timeout":
		res.status = "timeout"
	default:
		if cctx.Err() != nil {
			res.status = "timeout"
		} else {
			res.status = "error"
		}
	}
	return res
}

// Solve discharges the obligations of a report. scratch is a directory for query files.
func (e *Engine) Solve(rep *FuncReport, scratch string) {
	if rep.Error != "" {
		return
	}
	os.MkdirAll(scratch, 0o755)
	base := filepath.Join(scratch, mangle(rep.Func))
	start := time.Now()
	// 1. fast path: one incremental z3 script for the whole function
	for _, light := range []bool{true, false} {
	if light && !rep.hasHeavy() {
		continue
	}
	tmo := min(e.Timeout, 10) * 1000
	if light {
		tmo = 2000
	}
	script, order := rep.batchScript(tmo, light)
	if len(order) > 0 {
		f := base + ".batch.smt2"
		if light {
			f = base + ".light.smt2"
		}
		os.WriteFile(f, []byte(z3Header+script), 0o644)
		budget := len(order)*tmo/1000 + 20
		if budget > 150 {
			budget = 150 // a function whose batch needs longer is answered obligation by obligation
		}
		cctx, cancel := context.WithTimeout(context.Background(), time.Duration(budget)*time.Second)
		cmd := exec.CommandContext(cctx, "z3-new", "-smt2", f)
		sw := &stampWriter{last: time.Now()}
		cmd.Stdout = sw
		cmd.Stderr = sw
		_ = cmd.Run()
		out := &sw.buf
		stamps := sw.stamps
		cancel()
		if e.Verbose && os.Getenv("GOVC_DEBUG") != "" {
			fmt.Fprintf(os.Stderr, "  batch raw output (%d bytes): %q\n", out.Len(), truncateStr(out.String(), 300))
		}
		lines := strings.Split(strings.TrimSpace(out.String()), "\n")
		var answers []string
		for _, l := range lines {
			l = strings.TrimSpace(l)
			if l == "sat" || l == "unsat" || l == "unknown" || l == "timeout" {
				answers = append(answers, l)
			} else if strings.HasPrefix(l, "(error") {
				// a malformed script is an engine fault for every obligation after it
				if light {
					break // the light script is an optimisation only
				}
				rep.Error = "solver rejected the script: " + l
				os.WriteFile(base+".error.txt", out.Bytes(), 0o644)
				return
			}
		}
		for i, ob := range order {
			if i < len(answers) {
				if i < len(stamps) {
					ob.TimeS = stamps[i]
				}
				ob.Backend = "z3-5.1.0 (batch)"
				if light {
					ob.Backend = "z3-5.1.0 (batch, quantifier-free hypotheses only)"
				}
				switch {
				case ob.Kind == "vacuity" && answers[i] != "unsat":
					// "sat", or the solver cannot derive false from the hypotheses within the
					// time limit (sat is often unconfirmable in the presence of quantifiers)
					ob.Status = "discharged"
					if answers[i] != "sat" {
						ob.Backend += " [false not derivable within limit]"
					}
				case ob.Kind != "vacuity" && answers[i] == "unsat":
					ob.Status = "discharged"
				default:
					ob.Status = ""
				}
			}
		}
		if e.Verbose {
			fmt.Fprintf(os.Stderr, "  batch(light=%v) %s: %d checks in %.2fs answers=%v\n", light, rep.Func, len(order), time.Since(start).Seconds(), answers)
		}
	}
	}
	// 2. everything not discharged: individual query, raced over the three back ends
	var wg sync.WaitGroup
	sem := make(chan struct{}, 4)
	raced := 0
	for i, ob := range rep.Obligations {
		if ob.Status == "discharged" || ob.Status == "skipped" {
			continue
		}
		if e.SkipRace[ob.Name] {
			ob.Status = "undischarged"
			ob.Output = "recorded known finding: left open by the batch run, not raced individually"
			continue
		}
		raced++
		if raced > 24 {
			// more than two dozen open obligations in one function: the function has changed
			// beyond what its contract describes; the remaining ones are reported undischarged
			ob.Status = "undischarged"
			ob.Output = "not attempted individually: more than 24 obligations of this function were left open by the batch run"
			continue
		}
		wg.Add(1)
		go func(i int, ob *Obligation) {
			defer wg.Done()
			sem <- struct{}{}
			defer func() { <-sem }()
			e.solveOne(rep, ob, fmt.Sprintf("%s.%d", base, i))
		}(i, ob)
	}
	wg.Wait()
	rep.SolverTimeS = time.Since(start).Seconds()
}

func (e *Engine) solveOne(rep *FuncReport, ob *Obligation, base string) {
	q := rep.queryFor(ob)
	file := base + ".smt2"
	gv := "(get-model)\n"
	if ts := rep.valueTerms(); ts != "" {
		gv = "(get-value (" + ts + "))\n"
	}
	os.WriteFile(file, []byte(smtHeader+q+"(check-sat)\n"+gv), 0o644)
	zfile := base + ".z3.smt2"
	os.WriteFile(zfile, []byte(smtHeader+z3Header+q+"(check-sat)\n"+gv), 0o644)
	ctx, cancel := context.WithCancel(context.Background())
	defer cancel()
	ch := make(chan solveResult, len(solvers))
	for _, s := range solvers {
		go func(s solverSpec) {
			f := file
			if strings.HasPrefix(s.name, "z3") {
				f = zfile
			}
			ch <- runSolver(ctx, s, f, e.Timeout)
		}(s)
	}
	var results []solveResult
	decided := false
	decidedStatus := ""
	for range solvers {
		res := <-ch
		results = append(results, res)
		if (res.status == "sat" || res.status == "unsat") && !decided {
			decided = true
			decidedStatus = res.status
			ob.Backend = res.backend
			ob.TimeS = res.secs
			ob.Output = res.out
			wantSat := ob.Kind == "vacuity"
			switch {
			case res.status == "sat" && wantSat, res.status == "unsat" && !wantSat:
				ob.Status = "discharged"
			case res.status == "sat":
				ob.Status = "refuted"
				ob.Model = res.out
			default:
				ob.Status = "refuted" // vacuity canary unsat: contradictory preconditions
				ob.FailNote = "preconditions are contradictory"
			}
			if e.Tier != "thorough" {
				cancel()
				break
			}
		}
	}
	if !decided {
		ob.Status = "undischarged"
		// No back end decided the full query. Look for a CANDIDATE counterexample under the
		// quantifier-free hypotheses only (dropping hypotheses can only add models, so a
		// candidate proves nothing by itself): it is kept for the replay on the real code,
		// which alone can turn it into a failing input.
		if cand := e.candidateModel(rep, ob, base); cand != "" {
			ob.Model = cand
		}
		var notes []string
		for _, r := range results {
			first := strings.TrimSpace(strings.SplitN(r.out, "\n", 2)[0])
			if r.status == "error" {
				first = strings.TrimSpace(r.out) // the whole output: an error is the machinery's to fix
			}
			if len(first) > 200 {
				first = first[:200]
			}
			notes = append(notes, fmt.Sprintf("%s: %s (%s)", r.backend, r.status, first))
		}
		ob.Output = strings.Join(notes, "\n")
		return
	}
	if e.Tier == "thorough" {
		// all back ends that answer must agree
		for _, r := range results {
			if (r.status == "sat" || r.status == "unsat") && r.backend != ob.Backend {
				agree := r.status == decidedStatus
				if !agree {
					ob.Status = "engine-fault"
					ob.FailNote = fmt.Sprintf("back ends disagree: %s says %s", r.backend, r.status)
				}
			}
		}
	}
}

func (rep *FuncReport) valueTerms() string {
	var ts []string
	for _, p := range rep.Params {
		if p.Term != "" {
			ts = append(ts, p.Term)
		}
	}
	for _, dc := range rep.DynCalls {
		if !strings.HasSuffix(dc.Key, ".Expression.Evaluate") {
			continue
		}
		ts = append(ts, dc.Recv)
		ts = append(ts, dc.Results...)
	}
	return strings.Join(ts, " ")
}

func contextBackground() context.Context { return context.Background() }

func heavyText(t string, rec []string) bool {
	if strings.Contains(t, "(forall ") || strings.Contains(t, "(exists ") || strings.Contains(t, "validColl") {
		return true
	}
	for _, r := range rec {
		if strings.Contains(t, "("+r+" ") {
			return true
		}
	}
	return false
}

func (rep *FuncReport) hasHeavy() bool {
	for _, it := range rep.items {
		if it.kind == 0 && heavyText(it.text, rep.RecSyms) {
			return true
		}
	}
	return false
}

// stampWriter records when each solver answer line arrives (per-obligation solver time).
type stampWriter struct {
	buf    bytes.Buffer
	stamps []float64
	last   time.Time
	line   []byte
}

func (w *stampWriter) Write(p []byte) (int, error) {
	w.buf.Write(p)
	for _, c := range p {
		if c == '\n' {
			l := strings.TrimSpace(string(w.line))
			if l == "sat" || l == "unsat" || l == "unknown" || l == "timeout" {
				w.stamps = append(w.stamps, time.Since(w.last).Seconds())
				w.last = time.Now()
			}
			w.line = w.line[:0]
		} else {
			w.line = append(w.line, c)
		}
	}
	return len(p), nil
}

// SecondOpinion (thorough tier): every obligation the incremental z3 5.1.0 script discharged
// is posed again as a stand-alone query to the two other back ends (z3 4.8.12, cvc5). An
// answer "sat" contradicts the discharge and is an engine fault; "unsat" confirms it;
// unknown/timeout is recorded. This cross-checks both the solver and the incremental
// encoding (assert-then-assume over push/pop) against the stand-alone one.
func (e *Engine) SecondOpinion(rep *FuncReport, scratch string, deadline time.Time) (confirmed, unknown int) {
	if rep.Error != "" {
		return
	}
	base := filepath.Join(scratch, mangle(rep.Func)+".second")
	var mu sync.Mutex
	var wg sync.WaitGroup
	sem := make(chan struct{}, 4)
	for i, ob := range rep.Obligations {
		if ob.Status != "discharged" || ob.Kind == "vacuity" || !strings.Contains(ob.Backend, "(batch") {
			continue
		}
		wg.Add(1)
		go func(i int, ob *Obligation) {
			defer wg.Done()
			sem <- struct{}{}
			defer func() { <-sem }()
			if time.Now().After(deadline) {
				mu.Lock()
				unknown++
				ob.Second = "not attempted: second-opinion budget used up"
				mu.Unlock()
				return
			}
			q := rep.queryFor(ob)
			file := fmt.Sprintf("%s.%d.smt2", base, i)
			os.WriteFile(file, []byte(smtHeader+q+"(check-sat)\n"), 0o644)
			zfile := fmt.Sprintf("%s.%d.z3.smt2", base, i)
			os.WriteFile(zfile, []byte(smtHeader+z3Header+q+"(check-sat)\n"), 0o644)
			var notes []string
			ok := false
			for _, s := range solvers[1:] {
				f := file
				if strings.HasPrefix(s.name, "z3") {
					f = zfile
				}
				res := runSolver(context.Background(), s, f, 15)
				notes = append(notes, s.name+": "+res.status)
				if res.status == "sat" {
					ob.Status = "engine-fault"
					ob.FailNote = fmt.Sprintf("back ends disagree: discharged by %s, but %s answers sat on the stand-alone query", ob.Backend, s.name)
				}
				if res.status == "unsat" {
					ok = true
				}
			}
			os.Remove(file)
			os.Remove(zfile)
			mu.Lock()
			ob.Second = strings.Join(notes, ", ")
			if ok {
				confirmed++
			} else {
				unknown++
			}
			mu.Unlock()
		}(i, ob)
	}
	wg.Wait()
	return
}

// candidateModel asks z3 5.1.0 for a model of the negated obligation under the
// quantifier-free hypotheses only. Used for undischarged obligations; never a verdict.
func (e *Engine) candidateModel(rep *FuncReport, ob *Obligation, base string) string {
	if ob.Kind == "vacuity" || rep.LightPreamble == "" {
		return ""
	}
	var b strings.Builder
	b.WriteString(rep.LightPreamble)
	for i, it := range rep.items {
		if i >= ob.Index {
			break
		}
		if it.kind == 0 && !heavyText(it.text, rep.RecSyms) {
			b.WriteString(it.text)
			b.WriteByte('\n')
		}
	}
	if heavyText(ob.Reach+ob.Cond, rep.RecSyms) {
		return ""
	}
	fmt.Fprintf(&b, "(assert (and %s (not %s)))\n", ob.Reach, ob.Cond)
	gv := ""
	if ts := rep.valueTerms(); ts != "" {
		gv = "(get-value (" + ts + "))\n"
	} else {
		return ""
	}
	// first with hints that make the model small and renderable (short collections of plain
	// System values), then without
	var hints strings.Builder
	for _, p := range rep.Params {
		if p.Sort == "Slice_Any" {
			fmt.Fprintf(&hints, "(assert (<= (len_Any %s) 3))\n(assert (<= (cap_Any %s) 8))\n", p.Term, p.Term)
			for k := 0; k < 3 && strings.HasSuffix(p.Type, "Collection"); k++ {
				el := fmt.Sprintf("(select (arr_Any %s) %d)", p.Term, k)
				var alts []string
				for _, c := range []string{"b_system_Integer", "b_system_String", "b_system_Boolean", "b_system_Decimal"} {
					if strings.Contains(rep.LightPreamble, "("+c+" ") {
						alts = append(alts, fmt.Sprintf("((_ is %s) %s)", c, el))
					}
				}
				if len(alts) > 0 {
					fmt.Fprintf(&hints, "(assert (or %s))\n", strings.Join(alts, " "))
				}
			}
		} else if strings.HasPrefix(p.Sort, "Slice_") {
			m := strings.TrimPrefix(p.Sort, "Slice_")
			fmt.Fprintf(&hints, "(assert (<= (len_%s %s) 3))\n", m, p.Term)
		} else if p.Sort == "String" {
			fmt.Fprintf(&hints, "(assert (<= (str.len %s) 8))\n", p.Term)
		}
	}
	for attempt, extra := range []string{hints.String(), ""} {
		if attempt == 1 && hints.Len() == 0 {
			break
		}
		file := fmt.Sprintf("%s.cand%d.z3.smt2", base, attempt)
		os.WriteFile(file, []byte(smtHeader+z3Header+b.String()+extra+"(check-sat)\n"+gv), 0o644)
		res := runSolver(context.Background(), solvers[0], file, 10)
		if res.status == "sat" {
			return res.out
		}
	}
	return ""
}
