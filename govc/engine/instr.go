package engine

import (
	"fmt"
	"go/token"
	"go/types"
	"strings"

	"golang.org/x/tools/go/ssa"
)

func (r *run) execBlock(fr *frame, b *ssa.BasicBlock, st *State, reach string, ins map[*ssa.BasicBlock][]inEdge) {
	for _, in := range b.Instrs {
		switch x := in.(type) {
		case *ssa.Phi:
			// handled at block entry
		case *ssa.Alloc:
			r.execAlloc(fr, st, x, reach)
		case *ssa.Store:
			addr := r.val(fr, st, x.Addr)
			v := r.val(fr, st, x.Val)
			l := r.asLoc(fr, st, addr, x.Addr, reach, x.Pos())
			r.store(fr, st, l, v, reach, x.Pos())
		case *ssa.UnOp:
			fr.vals[x] = r.execUnOp(fr, st, x, reach)
		case *ssa.BinOp:
			fr.vals[x] = r.execBinOp(fr, st, x, reach)
		case *ssa.Call:
			fr.vals[x] = r.execCall(fr, st, x, &x.Call, reach)
		case *ssa.Extract:
			t := r.val(fr, st, x.Tuple)
			if x.Index >= len(t.Tup) {
				r.unsupported("extract %d from non-tuple", x.Index)
			}
			fr.vals[x] = t.Tup[x.Index]
		case *ssa.FieldAddr:
			base := r.val(fr, st, x.X)
			stT := x.X.Type().Underlying().(*types.Pointer).Elem()
			if base.Loc != nil {
				fr.vals[x] = Val{Loc: &Loc{Kind: LField, Base: base.Loc, Field: x.Field, Struct: stT}, Type: x.Type()}
			} else {
				r.oblige(fr.name, "nil-deref", reach, fmt.Sprintf("(not (= %s 0))", base.Term), "field address through pointer "+x.X.Name(), x.Pos())
				fr.vals[x] = Val{Loc: &Loc{Kind: LHeapField, Ptr: base.Term, Field: x.Field, Struct: stT}, Type: x.Type()}
			}
		case *ssa.Field:
			base := r.val(fr, st, x.X)
			si := r.eng.Sorts.StructInfo(base.Sort)
			if si == nil {
				r.unsupported("field of non-struct sort %s", base.Sort)
			}
			ft := si.gotype.Field(x.Field).Type()
			v := Val{Term: fmt.Sprintf("(%s %s)", si.fields[x.Field], base.Term), Sort: si.fsorts[x.Field], Type: ft}
			fr.vals[x] = v
		case *ssa.IndexAddr:
			fr.vals[x] = r.execIndexAddr(fr, st, x, reach)
		case *ssa.Index:
			fr.vals[x] = r.execIndex(fr, st, x, reach)
		case *ssa.Lookup:
			fr.vals[x] = r.execLookup(fr, st, x, reach)
		case *ssa.Slice:
			fr.vals[x] = r.execSlice(fr, st, x, reach)
		case *ssa.MakeSlice:
			fr.vals[x] = r.execMakeSlice(fr, st, x, reach)
		case *ssa.MakeMap:
			fr.vals[x] = r.execMakeMap(fr, st, x, reach)
		case *ssa.MapUpdate:
			r.execMapUpdate(fr, st, x, reach)
		case *ssa.MakeInterface:
			fr.vals[x] = r.execMakeInterface(fr, st, x, reach)
		case *ssa.ChangeInterface:
			v := r.val(fr, st, x.X)
			fr.vals[x] = r.convertIface(v, x.X.Type(), x.Type())
		case *ssa.ChangeType:
			v := r.val(fr, st, x.X)
			v.Type = x.Type()
			ns := r.eng.Sorts.SortOf(x.Type())
			if ns != v.Sort && v.Loc == nil && v.Fn == nil {
				r.unsupported("changetype between sorts %s and %s", v.Sort, ns)
			}
			fr.vals[x] = v
		case *ssa.Convert:
			fr.vals[x] = r.execConvert(fr, st, x, reach)
		case *ssa.TypeAssert:
			fr.vals[x] = r.execTypeAssert(fr, st, x, reach)
		case *ssa.MakeClosure:
			fn := x.Fn.(*ssa.Function)
			fv := &FnVal{Fn: fn}
			for _, bnd := range x.Bindings {
				fv.Bindings = append(fv.Bindings, r.val(fr, st, bnd))
			}
			c := r.fresh("clo", "Int")
			r.assume("true", fmt.Sprintf("(< 0 %s)", c))
			fr.vals[x] = Val{Fn: fv, Term: c, Sort: "Int", Type: x.Type()}
		case *ssa.Range:
			if _, isMap := x.X.Type().Underlying().(*types.Map); !isMap {
				r.unsupported("range over string (ssa.Range)")
			}
			m := r.val(fr, st, x.X)
			ks := r.eng.Sorts.SortOf(x.X.Type().Underlying().(*types.Map).Key())
			st.iters[x] = fmt.Sprintf("((as const (Array %s Bool)) false)", ks)
			fr.vals[x] = Val{Term: m.Term, Sort: "Int", Type: x.X.Type()}
		case *ssa.Next:
			fr.vals[x] = r.execNext(fr, st, x, reach)
		case *ssa.RunDefers:
		case *ssa.Defer:
			r.unsupported("defer")
		case *ssa.Go, *ssa.Send, *ssa.Select:
			r.unsupported("concurrency instruction %T", x)
		case *ssa.DebugRef:
		case *ssa.If:
			// counting loop `for c := e0; c < X; c++` whose bound X has the same value at
			// every evaluation of the header: c never exceeds max(e0, X)
			if li := fr.loops[b]; li != nil && li.cntCell != nil && li.cntEntry != "" {
				if cmp, ok := x.Cond.(*ssa.BinOp); ok && loopInvariantValue(li, cmp.Y, 0) {
					if cv, ok := st.cells[li.cntCell]; ok && cv.Sort == "Int" {
						bound := r.val(fr, st, cmp.Y)
						if bound.Sort == "Int" {
							r.assume(reach, fmt.Sprintf("(or (<= %s %s) (<= %s %s))", cv.Term, bound.Term, cv.Term, li.cntEntry))
						}
					}
				}
			}
			c := r.val(fr, st, x.Cond).Term
			r.pushEdge(fr, b, b.Succs[0], and(reach, c), st.clone(), ins)
			r.pushEdge(fr, b, b.Succs[1], and(reach, not(c)), st, ins)
			return
		case *ssa.Jump:
			r.pushEdge(fr, b, b.Succs[0], reach, st, ins)
			return
		case *ssa.Return:
			var vs []Val
			for _, res := range x.Results {
				vs = append(vs, r.val(fr, st, res))
			}
			fr.rets = append(fr.rets, retInfo{reach: reach, vals: vs, st: st})
			return
		case *ssa.Panic:
			r.execPanic(fr, st, x, reach)
			return
		default:
			r.unsupported("instruction %T", in)
		}
	}
}

func (r *run) execPanic(fr *frame, st *State, x *ssa.Panic, reach string) {
	top := fr.root
	if top != nil && top.contract != nil && (top.contract.MayPanic && fr == top || len(top.contract.PanicsWhen) > 0) {
		if len(top.contract.PanicsWhen) > 0 {
			env := r.newEnv(top, st)
			env.ensMode = true
			var cs []string
			for _, pw := range top.contract.PanicsWhen {
				cs = append(cs, r.specBool(env, pw.Expr, pw.Text))
			}
			r.oblige(fr.name, "panic-reachable", reach, or(cs...), "explicit panic only under the documented condition", x.Pos())
		}
		return
	}
	r.oblige(fr.name, "panic-reachable", reach, "false", "explicit panic", x.Pos())
}

func (r *run) execAlloc(fr *frame, st *State, x *ssa.Alloc, reach string) {
	et := x.Type().Underlying().(*types.Pointer).Elem()
	if !x.Heap {
		if x.Comment == "defer$stack" {
			st.cells[x] = Val{Term: "0", Sort: "Int"}
		} else {
			st.cells[x] = r.zero(et)
		}
		fr.vals[x] = Val{Loc: &Loc{Kind: LCell, Cell: x}, Type: x.Type()}
		return
	}
	if _, isArr := et.Underlying().(*types.Array); isArr {
		// backing array of a slice literal / variadic pack: a cell holding an array value
		st.cells[x] = r.zero(et)
		fr.vals[x] = Val{Loc: &Loc{Kind: LCell, Cell: x}, Type: x.Type()}
		return
	}
	// heap allocation: fresh reference
	ref := r.fresh("new_"+mangle(x.Comment), "Int")
	r.assume("true", fmt.Sprintf("(and (< 0 %s) (= %s %s))", ref, ref, st.nxt))
	nn := r.fresh("nxt", "Int")
	r.assume("true", fmt.Sprintf("(= %s (+ %s 1))", nn, st.nxt))
	st.nxt = nn
	if s, ok := et.Underlying().(*types.Struct); ok && r.eng.Sorts.StructInfo(r.eng.Sorts.SortOf(et)) != nil || isPlainStruct(et) {
		_ = s
		su := et.Underlying().(*types.Struct)
		for i := 0; i < su.NumFields(); i++ {
			name, _, ft := r.heapName(et, i)
			h := r.heapGet(st, name)
			st.heaps[name] = fmt.Sprintf("(store %s %s %s)", h, ref, r.zero(ft).Term)
		}
	} else {
		name := "HC_" + mangle(r.eng.Sorts.SortOf(et))
		r.heapSort[name] = r.eng.Sorts.SortOf(et)
		h := r.heapGet(st, name)
		st.heaps[name] = fmt.Sprintf("(store %s %s %s)", h, ref, r.zero(et).Term)
	}
	fr.vals[x] = Val{Term: ref, Sort: "Int", Type: x.Type()}
}

func isPlainStruct(t types.Type) bool {
	_, ok := t.Underlying().(*types.Struct)
	return ok && !isDecimal(t) && !isTimeTime(t)
}

// asLoc turns a pointer value into a location.
func (r *run) asLoc(fr *frame, st *State, v Val, sv ssa.Value, reach string, pos token.Pos) *Loc {
	if v.Loc != nil {
		return v.Loc
	}
	pt, ok := sv.Type().Underlying().(*types.Pointer)
	if !ok {
		r.unsupported("dereference of non-pointer %s", sv.Type())
	}
	r.oblige(fr.name, "nil-deref", reach, fmt.Sprintf("(not (= %s 0))", v.Term), "dereference of "+sv.Name(), pos)
	return &Loc{Kind: LHeapCell, Ptr: v.Term, Elem: pt.Elem()}
}

func (r *run) execUnOp(fr *frame, st *State, x *ssa.UnOp, reach string) Val {
	v := r.val(fr, st, x.X)
	switch x.Op {
	case token.MUL:
		if v.Loc != nil {
			return r.load(st, v.Loc, reach)
		}
		pt := x.X.Type().Underlying().(*types.Pointer)
		if isPlainStruct(pt.Elem()) && r.eng.Sorts.StructInfo(r.eng.Sorts.SortOf(pt.Elem())) != nil {
			// whole-struct load through a heap pointer
			r.oblige(fr.name, "nil-deref", reach, fmt.Sprintf("(not (= %s 0))", v.Term), "dereference of "+x.X.Name(), x.Pos())
			so := r.eng.Sorts.SortOf(pt.Elem())
			su := pt.Elem().Underlying().(*types.Struct)
			var parts []string
			for i := 0; i < su.NumFields(); i++ {
				parts = append(parts, r.load(st, &Loc{Kind: LHeapField, Ptr: v.Term, Field: i, Struct: pt.Elem()}, reach).Term)
			}
			if len(parts) == 0 {
				parts = []string{"0"}
			}
			return Val{Term: fmt.Sprintf("(mk_%s %s)", so, strings.Join(parts, " ")), Sort: so, Type: pt.Elem()}
		}
		l := r.asLoc(fr, st, v, x.X, reach, x.Pos())
		return r.load(st, l, reach)
	case token.NOT:
		return Val{Term: not(v.Term), Sort: "Bool", Type: x.Type()}
	case token.SUB:
		if v.Sort == "Real" {
			return Val{Term: fmt.Sprintf("(- %s)", v.Term), Sort: "Real", Type: x.Type()}
		}
		return r.wrap(x.Type(), fmt.Sprintf("(- %s)", v.Term))
	case token.XOR:
		bits, signed := intBits(x.Type())
		if signed {
			return Val{Term: fmt.Sprintf("(- (- %s) 1)", v.Term), Sort: "Int", Type: x.Type()}
		}
		return Val{Term: fmt.Sprintf("(- %s %s)", pow2m1(bits), v.Term), Sort: "Int", Type: x.Type()}
	}
	r.unsupported("unary op %s", x.Op)
	return Val{}
}

func pow2m1(bits int) string {
	switch bits {
	case 8:
		return "255"
	case 16:
		return "65535"
	case 32:
		return "4294967295"
	}
	return "18446744073709551615"
}

// wrap reduces a mathematical integer to the Go type's range (two's complement).
func (r *run) wrap(t types.Type, e string) Val {
	bits, signed := intBits(t)
	var term string
	if signed {
		term = fmt.Sprintf("(- (mod (+ %s %s) %s) %s)", e, pow2(bits-1), pow2(bits), pow2(bits-1))
	} else {
		term = fmt.Sprintf("(mod %s %s)", e, pow2(bits))
	}
	c := r.fresh("w", "Int")
	r.emit(fmt.Sprintf("(assert (= %s %s))", c, term))
	return Val{Term: c, Sort: "Int", Type: t}
}

// wrap1 is wrap for results known to be within one modulus of the range (add/sub).
func (r *run) wrap1(t types.Type, e string) Val {
	bits, _ := intBits(t)
	lo, hi, _ := intRange(t)
	c := r.fresh("w", "Int")
	r.emit(fmt.Sprintf("(assert (= %s (let ((e!0 %s)) (ite (> e!0 %s) (- e!0 %s) (ite (< e!0 %s) (+ e!0 %s) e!0)))))", c, e, hi, pow2(bits), lo, pow2(bits)))
	return Val{Term: c, Sort: "Int", Type: t}
}

func (r *run) execBinOp(fr *frame, st *State, x *ssa.BinOp, reach string) Val {
	a := r.val(fr, st, x.X)
	b := r.val(fr, st, x.Y)
	t := x.Type()
	boolV := func(s string) Val { return Val{Term: s, Sort: "Bool", Type: t} }
	switch x.Op {
	case token.EQL, token.NEQ:
		var eq string
		switch {
		case a.Loc != nil || b.Loc != nil:
			r.unsupported("comparison of static pointers")
		case a.Sort == "Any" && b.Sort == "Any":
			eq = fmt.Sprintf("(= %s %s)", a.Term, b.Term)
		case a.Sort != b.Sort:
			r.unsupported("comparison between sorts %s and %s", a.Sort, b.Sort)
		default:
			if strings.HasPrefix(a.Sort, "Slice_") {
				// only comparison with nil is legal Go
				m := strings.TrimPrefix(a.Sort, "Slice_")
				other := a
				if isNilConst(x.X) {
					other = b
				}
				eq = fmt.Sprintf("(not (nn_%s %s))", m, other.Term)
			} else {
				eq = fmt.Sprintf("(= %s %s)", a.Term, b.Term)
			}
		}
		if x.Op == token.NEQ {
			return boolV(not(eq))
		}
		return boolV(eq)
	case token.LSS, token.LEQ, token.GTR, token.GEQ:
		op := map[token.Token]string{token.LSS: "<", token.LEQ: "<=", token.GTR: ">", token.GEQ: ">="}[x.Op]
		if a.Sort == "String" {
			switch x.Op {
			case token.LSS:
				return boolV(fmt.Sprintf("(str.< %s %s)", a.Term, b.Term))
			case token.LEQ:
				return boolV(fmt.Sprintf("(str.<= %s %s)", a.Term, b.Term))
			case token.GTR:
				return boolV(fmt.Sprintf("(str.< %s %s)", b.Term, a.Term))
			default:
				return boolV(fmt.Sprintf("(str.<= %s %s)", b.Term, a.Term))
			}
		}
		return boolV(fmt.Sprintf("(%s %s %s)", op, a.Term, b.Term))
	case token.ADD:
		if a.Sort == "String" {
			return Val{Term: fmt.Sprintf("(str.++ %s %s)", a.Term, b.Term), Sort: "String", Type: t}
		}
		if a.Sort == "Real" {
			return r.floatOp(t, fmt.Sprintf("(+ %s %s)", a.Term, b.Term))
		}
		return r.wrap1(t, fmt.Sprintf("(+ %s %s)", a.Term, b.Term))
	case token.SUB:
		if a.Sort == "Real" {
			return r.floatOp(t, fmt.Sprintf("(- %s %s)", a.Term, b.Term))
		}
		return r.wrap1(t, fmt.Sprintf("(- %s %s)", a.Term, b.Term))
	case token.MUL:
		if a.Sort == "Real" {
			return r.floatOp(t, fmt.Sprintf("(* %s %s)", a.Term, b.Term))
		}
		return r.wrap(t, fmt.Sprintf("(* %s %s)", a.Term, b.Term))
	case token.QUO:
		if a.Sort == "Real" {
			// float division never panics in Go; result abstract when divisor is zero
			return r.floatOp(t, fmt.Sprintf("(/ %s %s)", a.Term, b.Term))
		}
		r.oblige(fr.name, "div-by-zero", reach, fmt.Sprintf("(not (= %s 0))", b.Term), srcText(x), x.Pos())
		return r.wrap(t, fmt.Sprintf("(tdiv %s %s)", a.Term, b.Term))
	case token.REM:
		r.oblige(fr.name, "div-by-zero", reach, fmt.Sprintf("(not (= %s 0))", b.Term), srcText(x), x.Pos())
		return Val{Term: fmt.Sprintf("(tmod %s %s)", a.Term, b.Term), Sort: "Int", Type: t}
	case token.SHL:
		if c, ok := x.Y.(*ssa.Const); ok {
			if n, ok2 := constInt(c); ok2 && n >= 0 && n < 64 {
				return r.wrap(t, fmt.Sprintf("(* %s %s)", a.Term, pow2big(int(n))))
			}
		}
		return r.symbolic("shl", t)
	case token.SHR:
		if c, ok := x.Y.(*ssa.Const); ok {
			if n, ok2 := constInt(c); ok2 && n >= 0 && n < 64 {
				return Val{Term: fmt.Sprintf("(div %s %s)", a.Term, pow2big(int(n))), Sort: "Int", Type: t}
			}
		}
		return r.symbolic("shr", t)
	case token.AND, token.OR, token.XOR, token.AND_NOT:
		if a.Sort == "Bool" {
			switch x.Op {
			case token.AND:
				return boolV(and(a.Term, b.Term))
			case token.OR:
				return boolV(or(a.Term, b.Term))
			}
		}
		// bit operations are abstracted (well-typed unknown result)
		r.assumed["abstraction: integer bit operation "+x.Op.String()] = true
		return r.symbolic("bitop", t)
	}
	r.unsupported("binary op %s", x.Op)
	return Val{}
}

// floatOp: float64 arithmetic is abstracted: the result is some real (finite case) that is
// *close to* but not assumed equal to the exact result; only used for safety reasoning.
func (r *run) floatOp(t types.Type, exact string) Val {
	if isDecimal(t) {
		return Val{Term: exact, Sort: "Real", Type: t}
	}
	r.assumed["abstraction: float64 arithmetic result unconstrained"] = true
	return r.symbolic("fl", t)
}

func pow2big(n int) string {
	v := uint64(1) << uint(n)
	return fmt.Sprint(v)
}

func constInt(c *ssa.Const) (int64, bool) {
	if c.Value == nil {
		return 0, false
	}
	return c.Int64(), true
}

func isNilConst(v ssa.Value) bool {
	c, ok := v.(*ssa.Const)
	return ok && c.Value == nil
}

func srcText(x ssa.Instruction) string {
	return strings.TrimSpace(x.String())
}

// ---- slices, strings, maps -----------------------------------------------------

func (r *run) sliceParts(v Val) (m, arr, ln, cp string) {
	m = strings.TrimPrefix(v.Sort, "Slice_")
	return m, fmt.Sprintf("(arr_%s %s)", m, v.Term), fmt.Sprintf("(len_%s %s)", m, v.Term), fmt.Sprintf("(cap_%s %s)", m, v.Term)
}

func (r *run) execIndexAddr(fr *frame, st *State, x *ssa.IndexAddr, reach string) Val {
	base := r.val(fr, st, x.X)
	idx := r.val(fr, st, x.Index)
	switch bt := x.X.Type().Underlying().(type) {
	case *types.Slice:
		_, _, ln, _ := r.sliceParts(base)
		r.oblige(fr.name, "index", reach, fmt.Sprintf("(and (<= 0 %s) (< %s %s))", idx.Term, idx.Term, ln), srcText(x), x.Pos())
		return Val{Loc: &Loc{Kind: LSliceElem, Slice: base, Idx: idx.Term, Elem: bt.Elem()}, Type: x.Type()}
	case *types.Pointer: // pointer to array
		at := bt.Elem().Underlying().(*types.Array)
		r.oblige(fr.name, "index", reach, fmt.Sprintf("(and (<= 0 %s) (< %s %d))", idx.Term, idx.Term, at.Len()), srcText(x), x.Pos())
		if base.Loc == nil {
			r.unsupported("index through heap array pointer")
		}
		return Val{Loc: &Loc{Kind: LArrayElem, Base: base.Loc, Idx: idx.Term, Elem: at.Elem()}, Type: x.Type()}
	}
	r.unsupported("indexaddr on %s", x.X.Type())
	return Val{}
}

func (r *run) execIndex(fr *frame, st *State, x *ssa.Index, reach string) Val {
	base := r.val(fr, st, x.X)
	idx := r.val(fr, st, x.Index)
	switch bt := x.X.Type().Underlying().(type) {
	case *types.Basic: // string
		r.oblige(fr.name, "index", reach, fmt.Sprintf("(and (<= 0 %s) (< %s (str.len %s)))", idx.Term, idx.Term, base.Term), srcText(x), x.Pos())
		return Val{Term: fmt.Sprintf("(str.to_code (str.at %s %s))", base.Term, idx.Term), Sort: "Int", Type: x.Type()}
	case *types.Array:
		r.oblige(fr.name, "index", reach, fmt.Sprintf("(and (<= 0 %s) (< %s %d))", idx.Term, idx.Term, bt.Len()), srcText(x), x.Pos())
		return Val{Term: fmt.Sprintf("(select %s %s)", base.Term, idx.Term), Sort: r.eng.Sorts.SortOf(bt.Elem()), Type: bt.Elem()}
	}
	r.unsupported("index on %s", x.X.Type())
	return Val{}
}

func (r *run) execSlice(fr *frame, st *State, x *ssa.Slice, reach string) Val {
	base := r.val(fr, st, x.X)
	var lo, hi string
	if x.Low != nil {
		lo = r.val(fr, st, x.Low).Term
	} else {
		lo = "0"
	}
	switch x.X.Type().Underlying().(type) {
	case *types.Basic: // string
		ln := fmt.Sprintf("(str.len %s)", base.Term)
		if x.High != nil {
			hi = r.val(fr, st, x.High).Term
		} else {
			hi = ln
		}
		r.oblige(fr.name, "slice-bounds", reach, fmt.Sprintf("(and (<= 0 %s) (<= %s %s) (<= %s %s))", lo, lo, hi, hi, ln), srcText(x), x.Pos())
		sub := r.share(fmt.Sprintf("(str.substr %s %s (- %s %s))", base.Term, lo, hi, lo), "String")
		// character i of s[lo:hi] is character lo+i of s: ground instances for the first
		// positions (a consequence of the string theory the solvers are slow to find)
		for i := 0; i < 8; i++ {
			r.assume(reach, fmt.Sprintf("(=> (< %d (- %s %s)) (= (str.at %s %d) (str.at %s (+ %s %d))))", i, hi, lo, sub, i, base.Term, lo, i))
		}
		return Val{Term: sub, Sort: "String", Type: x.Type()}
	case *types.Slice:
		m, arr, ln, cp := r.sliceParts(base)
		if x.High != nil {
			hi = r.val(fr, st, x.High).Term
		} else {
			hi = ln
		}
		mx := cp
		if x.Max != nil {
			mx = r.val(fr, st, x.Max).Term
			r.oblige(fr.name, "slice-bounds", reach, fmt.Sprintf("(and (<= %s %s) (<= %s %s))", hi, mx, mx, cp), srcText(x)+" (max)", x.Pos())
		}
		r.oblige(fr.name, "slice-bounds", reach, fmt.Sprintf("(and (<= 0 %s) (<= %s %s) (<= %s %s))", lo, lo, hi, hi, cp), srcText(x), x.Pos())
		// value semantics: the result's element i is the base's element lo+i
		var narr string
		if lo == "0" {
			narr = arr
		} else {
			c := r.fresh("sl", "(Array Int "+r.eng.Sorts.slices[base.Sort]+")")
			r.emit(fmt.Sprintf("(assert (forall ((i!s Int)) (! (= (select %s i!s) (select %s (+ i!s %s))) :pattern ((select %s i!s)))))", c, arr, lo, c))
			narr = c
		}
		// a sub-slice shares the backing array: never "owned" for append purposes unless the base was
		res := Val{Term: fmt.Sprintf("(mk_%s %s (- %s %s) (- %s %s) (own_%s %s) (nn_%s %s))", base.Sort, narr, hi, lo, mx, lo, m, base.Term, m, base.Term), Sort: base.Sort, Type: x.Type()}
		if base.Rune != nil {
			res.Rune = &runeSrc{S: base.Rune.S, Lo: fmt.Sprintf("(+ %s %s)", base.Rune.Lo, lo), Hi: fmt.Sprintf("(+ %s %s)", base.Rune.Lo, hi)}
		}
		return res
	case *types.Pointer: // pointer to array -> slice (slice literals, variadic packs)
		if base.Loc == nil {
			r.unsupported("slicing a heap array pointer")
		}
		at := x.X.Type().Underlying().(*types.Pointer).Elem().Underlying().(*types.Array)
		arrv := r.load(st, base.Loc, reach)
		if lo != "0" {
			r.unsupported("slicing an array from a non-zero offset")
		}
		n := fmt.Sprint(at.Len())
		if x.High != nil {
			hi = r.val(fr, st, x.High).Term
		} else {
			hi = n
		}
		r.oblige(fr.name, "slice-bounds", reach, fmt.Sprintf("(and (<= 0 %s) (<= %s %s))", hi, hi, n), srcText(x), x.Pos())
		so := r.eng.Sorts.SortOf(x.Type())
		return Val{Term: fmt.Sprintf("(mk_%s %s %s %s true true)", so, arrv.Term, hi, n), Sort: so, Type: x.Type()}
	}
	r.unsupported("slice of %s", x.X.Type())
	return Val{}
}

func (r *run) execMakeSlice(fr *frame, st *State, x *ssa.MakeSlice, reach string) Val {
	ln := r.val(fr, st, x.Len).Term
	cp := r.val(fr, st, x.Cap).Term
	so := r.eng.Sorts.SortOf(x.Type())
	et := x.Type().Underlying().(*types.Slice).Elem()
	r.oblige(fr.name, "makeslice", reach, fmt.Sprintf("(and (<= 0 %s) (<= %s %s))", ln, ln, cp), srcText(x), x.Pos())
	es := r.eng.Sorts.slices[so]
	return Val{Term: fmt.Sprintf("(mk_%s ((as const (Array Int %s)) %s) %s %s true true)", so, es, r.zero(et).Term, ln, cp), Sort: so, Type: x.Type()}
}

// maps: a map value is a reference; contents live in two heaps per (K,V): domain and values.
func (r *run) mapHeaps(t types.Type) (dom, val string, kt, vt types.Type) {
	m := t.Underlying().(*types.Map)
	ks, vs := r.eng.Sorts.SortOf(m.Key()), r.eng.Sorts.SortOf(m.Elem())
	dom = "MD_" + mangle(ks) + "_" + mangle(vs)
	val = "MV_" + mangle(ks) + "_" + mangle(vs)
	r.heapSort[dom] = "(Array " + ks + " Bool)"
	r.heapSort[val] = "(Array " + ks + " " + vs + ")"
	return dom, val, m.Key(), m.Elem()
}

func (r *run) execMakeMap(fr *frame, st *State, x *ssa.MakeMap, reach string) Val {
	ref := r.fresh("newmap", "Int")
	r.assume("true", fmt.Sprintf("(and (< 0 %s) (= %s %s))", ref, ref, st.nxt))
	nn := r.fresh("nxt", "Int")
	r.assume("true", fmt.Sprintf("(= %s (+ %s 1))", nn, st.nxt))
	st.nxt = nn
	dom, val, kt, _ := r.mapHeaps(x.Type())
	ks := r.eng.Sorts.SortOf(kt)
	hd := r.heapGet(st, dom)
	st.heaps[dom] = fmt.Sprintf("(store %s %s ((as const (Array %s Bool)) false))", hd, ref, ks)
	_ = val
	return Val{Term: ref, Sort: "Int", Type: x.Type()}
}

func (r *run) execMapUpdate(fr *frame, st *State, x *ssa.MapUpdate, reach string) {
	m := r.val(fr, st, x.Map)
	k := r.val(fr, st, x.Key)
	v := r.val(fr, st, x.Value)
	dom, val, _, _ := r.mapHeaps(x.Map.Type())
	r.oblige(fr.name, "nil-map-write", reach, fmt.Sprintf("(not (= %s 0))", m.Term), srcText(x), x.Pos())
	if fr.root != nil && fr.root.contract != nil && fr.root.contract.AssignsSet {
		cond := fmt.Sprintf("(>= %s %s)", m.Term, r.nxt0)
		for _, a := range fr.root.contract.Assigns {
			if a == "*" {
				cond = "true"
			}
			if strings.HasPrefix(a, "map:") {
				env := r.newEnv(fr, st)
				if e, err := ParseSpec(strings.TrimPrefix(a, "map:")); err == nil {
					cond = or(cond, fmt.Sprintf("(= %s %s)", m.Term, r.specTerm(env, e).Term))
				}
			}
		}
		r.oblige(fr.name, "frame.map-update", reach, cond, "map update outside this activation's fresh maps and the assigns clause", x.Pos())
	}
	hd := r.heapGet(st, dom)
	hv := r.heapGet(st, val)
	st.heaps[dom] = r.share(fmt.Sprintf("(store %s %s (store (select %s %s) %s true))", hd, m.Term, hd, m.Term, k.Term), "(Array Int "+r.heapSort[dom]+")")
	st.heaps[val] = r.share(fmt.Sprintf("(store %s %s (store (select %s %s) %s %s))", hv, m.Term, hv, m.Term, k.Term, v.Term), "(Array Int "+r.heapSort[val]+")")
}

func (r *run) execLookup(fr *frame, st *State, x *ssa.Lookup, reach string) Val {
	m := r.val(fr, st, x.X)
	k := r.val(fr, st, x.Index)
	if _, isStr := x.X.Type().Underlying().(*types.Basic); isStr {
		r.unsupported("lookup on string")
	}
	dom, val, _, vt := r.mapHeaps(x.X.Type())
	hd := r.heapGet(st, dom)
	hv := r.heapGet(st, val)
	has := fmt.Sprintf("(and (not (= %s 0)) (select (select %s %s) %s))", m.Term, hd, m.Term, k.Term)
	raw := fmt.Sprintf("(select (select %s %s) %s)", hv, m.Term, k.Term)
	vs := r.eng.Sorts.SortOf(vt)
	res := Val{Term: fmt.Sprintf("(ite %s %s %s)", has, raw, r.zero(vt).Term), Sort: vs, Type: vt}
	r.assume("true", r.typeFacts(vt, raw))
	if x.CommaOk {
		return Val{Sort: "TUPLE", Tup: []Val{res, {Term: has, Sort: "Bool", Type: types.Typ[types.Bool]}}, Type: x.Type()}
	}
	return res
}

// ---- interfaces ----------------------------------------------------------------

func (r *run) execMakeInterface(fr *frame, st *State, x *ssa.MakeInterface, reach string) Val {
	v := r.val(fr, st, x.X)
	if isErrorType(x.Type()) {
		// a concrete error value boxed as error: an opaque non-nil error
		e := r.fresh("errv", "Err")
		r.assume("true", fmt.Sprintf("(< 0 %s)", e))
		return Val{Term: e, Sort: "Err", Type: x.Type()}
	}
	if v.Loc != nil || (v.Fn != nil && v.Term == "") {
		r.unsupported("boxing a static pointer or function")
	}
	t, facts := r.eng.Sorts.Box(x.X.Type(), v.Term)
	for _, f := range facts {
		r.assume("true", f)
	}
	return Val{Term: t, Sort: "Any", Type: x.Type()}
}

func (r *run) convertIface(v Val, from, to types.Type) Val {
	fs, ts := r.eng.Sorts.SortOf(from), r.eng.Sorts.SortOf(to)
	if fs == ts {
		v.Type = to
		return v
	}
	if fs == "Err" && ts == "Any" {
		return Val{Term: fmt.Sprintf("(ite (= %s 0) nil_any (b_error %s))", v.Term, v.Term), Sort: "Any", Type: to}
	}
	if fs == "Any" && ts == "Err" {
		return Val{Term: fmt.Sprintf("(ite ((_ is b_error) %s) (ub_error %s) 0)", v.Term, v.Term), Sort: "Err", Type: to}
	}
	r.unsupported("interface conversion %s -> %s", fs, ts)
	return Val{}
}

func (r *run) execTypeAssert(fr *frame, st *State, x *ssa.TypeAssert, reach string) Val {
	v := r.val(fr, st, x.X)
	at := x.AssertedType
	var ok, val string
	resSort := r.eng.Sorts.SortOf(at)
	if v.Sort == "Err" {
		// assertion on an error value: abstract
		okc := r.fresh("ta_ok", "Bool")
		res := r.symbolic("ta_val", at)
		r.assumed["abstraction: type assertion on an error value"] = true
		if x.CommaOk {
			return Val{Sort: "TUPLE", Tup: []Val{res, {Term: okc, Sort: "Bool", Type: types.Typ[types.Bool]}}, Type: x.Type()}
		}
		r.oblige(fr.name, "type-assert", reach, okc, srcText(x), x.Pos())
		return res
	}
	if iface, isI := at.Underlying().(*types.Interface); isI {
		if isErrorType(at) {
			ok = fmt.Sprintf("((_ is b_error) %s)", v.Term)
			val = fmt.Sprintf("(ite %s (ub_error %s) 0)", ok, v.Term)
		} else {
			ok = r.eng.Sorts.Implements(iface, shortName(at), v.Term)
			val = fmt.Sprintf("(ite %s %s nil_any)", ok, v.Term)
		}
	} else {
		ok = r.eng.Sorts.IsType(at, v.Term)
		val = fmt.Sprintf("(ite %s %s %s)", ok, r.eng.Sorts.Unbox(at, v.Term), r.zero(at).Term)
	}
	okc := r.fresh("ta_ok", "Bool")
	r.emit(fmt.Sprintf("(assert (= %s %s))", okc, ok))
	res := Val{Term: val, Sort: resSort, Type: at}
	if x.CommaOk {
		if _, isI := at.Underlying().(*types.Interface); !isI {
			ub := r.eng.Sorts.Unbox(at, v.Term)
			r.assume("true", fmt.Sprintf("(=> %s %s)", okc, r.typeFacts(at, ub)))
		}
		return Val{Sort: "TUPLE", Tup: []Val{res, {Term: okc, Sort: "Bool", Type: types.Typ[types.Bool]}}, Type: x.Type()}
	}
	r.oblige(fr.name, "type-assert", reach, okc, srcText(x), x.Pos())
	if _, isI := at.Underlying().(*types.Interface); isI {
		res.Term = v.Term
		if isErrorType(at) {
			res.Term = fmt.Sprintf("(ub_error %s)", v.Term)
		}
	} else {
		res.Term = r.eng.Sorts.Unbox(at, v.Term)
	}
	r.assume(reach, r.typeFacts(at, res.Term))
	r.refFact(st, at, res.Term)
	return res
}

// ---- conversions ---------------------------------------------------------------

func (r *run) execConvert(fr *frame, st *State, x *ssa.Convert, reach string) Val {
	v := r.val(fr, st, x.X)
	from, to := x.X.Type(), x.Type()
	fs, ts := r.eng.Sorts.SortOf(from), r.eng.Sorts.SortOf(to)
	fb, _ := from.Underlying().(*types.Basic)
	tb, _ := to.Underlying().(*types.Basic)
	switch {
	case fs == "Int" && ts == "Int":
		if fb != nil && tb != nil {
			flo, fhi, _ := intRange(from)
			tlo, thi, _ := intRange(to)
			_ = flo
			_ = fhi
			fbits, fsg := intBits(from)
			tbits, tsg := intBits(to)
			if fsg == tsg && fbits <= tbits || !fsg && tsg && fbits < tbits {
				return Val{Term: v.Term, Sort: "Int", Type: to}
			}
			_ = tlo
			_ = thi
			return r.wrap(to, v.Term)
		}
		return Val{Term: v.Term, Sort: "Int", Type: to}
	case fs == "Int" && ts == "Real":
		// int -> float64: exact for |x| < 2^53, otherwise abstract
		bits, _ := intBits(from)
		if bits <= 32 {
			return Val{Term: fmt.Sprintf("(to_real %s)", v.Term), Sort: "Real", Type: to}
		}
		c := r.symbolic("i2f", to)
		r.assume("true", fmt.Sprintf("(=> (and (< (- 9007199254740992) %s) (< %s 9007199254740992)) (= %s (to_real %s)))", v.Term, v.Term, c.Term, v.Term))
		return c
	case fs == "Real" && ts == "Int":
		// float -> int: truncation when in range; implementation-defined otherwise
		c := r.symbolic("f2i", to)
		lo, hi, _ := intRange(to)
		tr := fmt.Sprintf("(ite (>= %s 0.0) (to_int %s) (- (to_int (- %s))))", v.Term, v.Term, v.Term)
		r.assume("true", fmt.Sprintf("(=> (and (<= %s %s) (<= %s %s)) (= %s %s))", lo, tr, tr, hi, c.Term, tr))
		return c
	case fs == "Real" && ts == "Real":
		return Val{Term: v.Term, Sort: "Real", Type: to}
	case fs == "String" && ts == "String":
		return Val{Term: v.Term, Sort: "String", Type: to}
	case fs == "Int" && ts == "String":
		// string(rune)
		return Val{Term: fmt.Sprintf("(rune_to_string %s)", v.Term), Sort: "String", Type: to}
	case fs == "String" && strings.HasPrefix(ts, "Slice_"):
		et := to.Underlying().(*types.Slice).Elem().Underlying().(*types.Basic)
		fn := "bytes_of"
		if et.Kind() == types.Int32 {
			fn = "runes_of"
		}
		res := Val{Term: fmt.Sprintf("(%s %s)", fn, v.Term), Sort: ts, Type: to}
		if fn == "runes_of" {
			// []rune(s): one element per character; assumed contract of the conversion
			// (rlenS is the character count of s, between 0 and its byte length)
			rl := fmt.Sprintf("(rlenS %s)", v.Term)
			r.assume("true", fmt.Sprintf("(and (= (len_Int %s) %s) (<= (len_Int %s) (cap_Int %s)) (own_Int %s) (nn_Int %s))", res.Term, rl, res.Term, res.Term, res.Term, res.Term))
			res.Rune = &runeSrc{S: v.Term, Lo: "0", Hi: rl}
			r.assumed["assumed contract: []rune(s) has one element per character (rlenS), string(runes[a:b]) is the character slice rsubS(s,a,b)"] = true
		} else {
			// []byte(s): a fresh slice with one element per byte, each the byte of s there
			m := strings.TrimPrefix(ts, "Slice_")
			r.assume("true", fmt.Sprintf("(and (= (len_%s %s) (str.len %s)) (<= (len_%s %s) (cap_%s %s)) (own_%s %s) (nn_%s %s))", m, res.Term, v.Term, m, res.Term, m, res.Term, m, res.Term, m, res.Term))
			// element i is byte i of the string (strings are byte sequences in this encoding);
			// ground instances for the first bytes spare the solver a quantifier
			for i := 0; i < 8; i++ {
				r.assume("true", fmt.Sprintf("(=> (< %d (str.len %s)) (= (select (arr_%s %s) %d) (str.to_code (str.at %s %d))))", i, v.Term, m, res.Term, i, v.Term, i))
			}
		}
		return res
	case strings.HasPrefix(fs, "Slice_") && ts == "String":
		et := from.Underlying().(*types.Slice).Elem().Underlying().(*types.Basic)
		fn := "string_of_bytes"
		if et.Kind() == types.Int32 {
			fn = "string_of_runes"
		}
		if v.Rune != nil && fn == "string_of_runes" {
			// string(runes[a:b]) of runes := []rune(s): the characters [a,b) of s
			return Val{Term: fmt.Sprintf("(rsubS %s %s %s)", v.Rune.S, v.Rune.Lo, v.Rune.Hi), Sort: "String", Type: to}
		}
		return Val{Term: fmt.Sprintf("(%s %s)", fn, v.Term), Sort: "String", Type: to}
	case fs == ts:
		v.Type = to
		return v
	}
	r.unsupported("convert %s -> %s", from, to)
	return Val{}
}

// execNext models one step of a map iteration with a ghost "visited" set: a step either
// yields a present key not visited before (with its value), or ends the iteration, and the
// iteration can only end when every present key has been visited. The order is arbitrary.
func (r *run) execNext(fr *frame, st *State, x *ssa.Next, reach string) Val {
	rg, ok := x.Iter.(*ssa.Range)
	if !ok || x.IsString {
		r.unsupported("next on a string iterator")
	}
	mt := rg.X.Type().Underlying().(*types.Map)
	m := r.val(fr, st, rg).Term
	dom, val, _, _ := r.mapHeaps(rg.X.Type())
	hd := r.heapGet(st, dom)
	hv := r.heapGet(st, val)
	visited, live := st.iters[rg]
	if !live {
		r.unsupported("iterator used outside its range loop")
	}
	okc := r.fresh("next_ok", "Bool")
	k := r.symbolic("next_k", mt.Key())
	v := r.symbolic("next_v", mt.Elem())
	ks := r.eng.Sorts.SortOf(mt.Key())
	r.assume(reach, fmt.Sprintf("(=> %s (and (not (= %s 0)) (select (select %s %s) %s) (not (select %s %s)) (= %s (select (select %s %s) %s))))", okc, m, hd, m, k.Term, visited, k.Term, v.Term, hv, m, k.Term))
	r.assume(reach, fmt.Sprintf("(=> (not %s) (forall ((k!n %s)) (! (=> (and (not (= %s 0)) (select (select %s %s) k!n)) (select %s k!n)) :pattern ((select %s k!n)))))", okc, ks, m, hd, m, visited, visited))
	st.iters[rg] = fmt.Sprintf("(ite %s (store %s %s true) %s)", okc, visited, k.Term, visited)
	return Val{Sort: "TUPLE", Tup: []Val{{Term: okc, Sort: "Bool", Type: types.Typ[types.Bool]}, k, v}, Type: x.Type()}
}

// loopInvariantValue: v denotes the same value at every evaluation inside the loop: a
// constant, a value computed outside the loop, the contents of a local cell that the loop
// never stores to, or len/cap of such a value.
func loopInvariantValue(li *loopInfo, v ssa.Value, depth int) bool {
	if depth > 3 {
		return false
	}
	switch x := v.(type) {
	case *ssa.Const:
		return true
	case *ssa.Parameter:
		return true
	case *ssa.UnOp:
		if x.Op != token.MUL {
			return false
		}
		cell, ok := x.X.(*ssa.Alloc)
		if !ok || cell.Heap {
			return false
		}
		for _, ref := range *cell.Referrers() {
			switch y := ref.(type) {
			case *ssa.Store:
				if y.Addr != cell {
					return false
				}
				if li.body[y.Block()] {
					return false
				}
			case *ssa.UnOp, *ssa.DebugRef:
			default:
				return false
			}
		}
		return true
	case *ssa.Call:
		if b, ok := x.Call.Value.(*ssa.Builtin); ok && (b.Name() == "len" || b.Name() == "cap") && len(x.Call.Args) == 1 {
			return loopInvariantValue(li, x.Call.Args[0], depth+1)
		}
		return false
	case *ssa.Convert:
		return loopInvariantValue(li, x.X, depth+1)
	}
	if in, ok := v.(ssa.Instruction); ok && in.Block() != nil && !li.body[in.Block()] {
		return true
	}
	return false
}
