package engine

import (
	"regexp"
	"encoding/json"
	"fmt"
	"go/types"
	"os"
	"path/filepath"
	"sort"
	"strings"

	"golang.org/x/tools/go/packages"
	"golang.org/x/tools/go/ssa"
	"golang.org/x/tools/go/ssa/ssautil"
)

type Engine struct {
	RepoDir   string
	VerifDir  string
	Prog      *ssa.Program
	Pkgs      []*packages.Package
	SSAPkgs   map[string]*ssa.Package // by import path
	Sorts     *Sorts
	Contracts map[string]*Contract
	CFiles    []string
	Prelude   *Prelude
	Funcs     map[string]*ssa.Function // by String()
	ErrGlobs  []*ssa.Global
	Timeout   int // seconds per obligation
	Verbose   bool
	Tier      string
	Seed      int
	funcIdx   map[string]int
	SkipRace  map[string]bool // obligations recorded as open known findings: not raced individually
	// BaseLocals: names and types of the locals of every function under contract, as they were
	// when its contract was written (contracts/locals.json, written by `govc locals`). Used only
	// to re-bind a name in a loop invariant after the local was renamed in the source.
	BaseLocals map[string][]BaseLocal
}

type BaseLocal struct {
	Name string `json:"name"`
	Type string `json:"type"`
	// Loop: the local is assigned inside a loop (accumulators and counters, as opposed to
	// temporaries computed once)
	Loop bool `json:"loop,omitempty"`
}

// blocksInLoops: the blocks that belong to some natural loop of fn.
func blocksInLoops(fn *ssa.Function) map[*ssa.BasicBlock]bool {
	in := map[*ssa.BasicBlock]bool{}
	for _, b := range fn.Blocks {
		for _, h := range b.Succs {
			if !h.Dominates(b) {
				continue
			}
			in[h] = true
			stack := []*ssa.BasicBlock{}
			if !in[b] || b != h {
				in[b] = true
				stack = append(stack, b)
			}
			seen := map[*ssa.BasicBlock]bool{h: true, b: true}
			for len(stack) > 0 {
				x := stack[len(stack)-1]
				stack = stack[:len(stack)-1]
				if x == h {
					continue
				}
				for _, p := range x.Preds {
					if !seen[p] {
						seen[p] = true
						in[p] = true
						stack = append(stack, p)
					}
				}
			}
		}
	}
	return in
}

// LocalsOf lists the named locals of fn in declaration order.
func LocalsOf(fn *ssa.Function) []BaseLocal {
	var as []*ssa.Alloc
	for _, b := range fn.Blocks {
		for _, in := range b.Instrs {
			if a, ok := in.(*ssa.Alloc); ok && a.Comment != "" && a.Pos().IsValid() {
				as = append(as, a)
			}
		}
	}
	sort.SliceStable(as, func(i, j int) bool { return as[i].Pos() < as[j].Pos() })
	inLoop := blocksInLoops(fn)
	var out []BaseLocal
	for _, a := range as {
		bl := BaseLocal{Name: a.Comment, Type: a.Type().Underlying().(*types.Pointer).Elem().String()}
		for _, ref := range *a.Referrers() {
			if st, ok := ref.(*ssa.Store); ok && st.Addr == a && inLoop[st.Block()] && a.Block() != st.Block() {
				bl.Loop = true
			}
		}
		out = append(out, bl)
	}
	return out
}

// renamedLocal resolves a name that a contract uses but the function no longer declares: among
// the baseline locals of the function, those of the same type that have disappeared are matched,
// in declaration order, with the locals of that type that are new. A wrong match cannot make a
// proof succeed (invariants are checked), it can only fail to repair it.
func (e *Engine) renamedLocal(fn *ssa.Function, name string) []string {
	key := fn.String()
	base, ok := e.BaseLocals[key]
	if !ok && fn.Origin() != nil {
		base, ok = e.BaseLocals[fn.Origin().String()]
	}
	if !ok {
		return nil
	}
	typ := ""
	baseNames := map[string]bool{}
	for _, b := range base {
		baseNames[b.Name] = true
		if b.Name == name && typ == "" {
			typ = b.Type
		}
	}
	if typ == "" {
		return nil
	}
	cur := LocalsOf(fn)
	curNames := map[string]bool{}
	for _, c := range cur {
		curNames[c.Name] = true
	}
	var gone, fresh []string
	for _, b := range base {
		if b.Type == typ && !curNames[b.Name] {
			gone = append(gone, b.Name)
		}
	}
	for _, c := range cur {
		if c.Type == typ && !baseNames[c.Name] {
			fresh = append(fresh, c.Name)
		}
	}
	if len(gone) == len(fresh) {
		// a name declared several times (shadowing) maps to several new names; the caller
		// picks among the live ones as it does for a shadowed name
		var out []string
		for i, g := range gone {
			if g == name {
				out = append(out, fresh[i])
			}
		}
		return out
	}
	// temporaries were introduced or removed as well: match within the class of locals that
	// are (not) assigned inside a loop
	loopOf := func(ls []BaseLocal, n string) bool {
		for _, l := range ls {
			if l.Name == n {
				return l.Loop
			}
		}
		return false
	}
	want := loopOf(base, name)
	var g2, f2 []string
	for _, g := range gone {
		if loopOf(base, g) == want {
			g2 = append(g2, g)
		}
	}
	for _, f := range fresh {
		if loopOf(cur, f) == want {
			f2 = append(f2, f)
		}
	}
	if len(g2) != len(f2) {
		return nil
	}
	var out []string
	for i, g := range g2 {
		if g == name {
			out = append(out, f2[i])
		}
	}
	return out
}

// overlayInstances is a synthetic file forcing generic instantiations (DESIGN §3.1).
func overlayInstances() map[string][]byte {
	ints := []string{"int", "int8", "int16", "int32", "int64", "uint", "uint8", "uint16", "uint32", "uint64", "uintptr", "verifInt16", "verifUint32"}
	var b strings.Builder
	b.WriteString("//go:build verif\n\npackage narrow\n\ntype verifInt16 int16\ntype verifUint32 uint32\n\nfunc verifInstances() {\n")
	for _, to := range ints {
		for _, from := range ints {
			fmt.Fprintf(&b, "\t_, _ = ToInteger[%s, %s](0)\n", to, from)
		}
	}
	b.WriteString("}\n")
	var c strings.Builder
	c.WriteString("//go:build verif\n\npackage fhirconv\n\nimport dtpb \"github.com/google/fhir/go/proto/google/fhir/proto/r4/core/datatypes_go_proto\"\n\nfunc verifInstances() {\n")
	for _, to := range ints[:11] {
		for _, from := range []string{"Integer", "UnsignedInt", "PositiveInt"} {
			fmt.Fprintf(&c, "\t_, _ = ToInteger[%s, *dtpb.%s](nil)\n", to, from)
		}
	}
	c.WriteString("}\n")
	// C20: one instance of the generic extension mutators (the type parameter only selects
	// the element type handed to FromElement)
	x := "//go:build verif\n\npackage extension\n\nimport dtpb \"github.com/google/fhir/go/proto/google/fhir/proto/r4/core/datatypes_go_proto\"\n\nfunc verifInstances() {\n\tSetByURL[*dtpb.String](nil, \"\")\n\t_ = New[*dtpb.String](\"\", nil)\n}\n"
	return map[string][]byte{"/repo/internal/narrow/verif_instances.go": []byte(b.String()),
		"/repo/internal/fhirconv/verif_instances.go": []byte(c.String()),
		"/repo/internal/element/extension/verif_instances.go": []byte(x)}
}

func Load(repoDir, verifDir string, patterns []string) (*Engine, error) {
	ov := map[string][]byte{}
	for k, v := range overlayInstances() {
		ov[strings.Replace(k, "/repo", repoDir, 1)] = v
	}
	cfg := &packages.Config{
		Mode:       packages.LoadSyntax,
		Dir:        repoDir,
		BuildFlags: []string{"-tags=verif"},
		Overlay:    ov,
		Env:        append(os.Environ(), "GOFLAGS=-mod=mod", "GOPROXY=off", "GOSUMDB=off", "GOTOOLCHAIN=local"),
	}
	pkgs, err := packages.Load(cfg, patterns...)
	if err != nil {
		return nil, err
	}
	var errs []string
	packages.Visit(pkgs, nil, func(p *packages.Package) {
		if strings.HasPrefix(p.PkgPath, repoMod) {
			for _, e := range p.Errors {
				errs = append(errs, e.Error())
			}
		}
	})
	if len(errs) > 0 {
		return nil, fmt.Errorf("load errors: %s", strings.Join(errs, "; "))
	}
	prog, _ := ssautil.Packages(pkgs, ssa.NaiveForm|ssa.InstantiateGenerics)
	prog.Build()
	e := &Engine{RepoDir: repoDir, VerifDir: verifDir, Prog: prog, Pkgs: pkgs, SSAPkgs: map[string]*ssa.Package{},
		Sorts: NewSorts(), Funcs: map[string]*ssa.Function{}, Timeout: 30}
	for _, p := range prog.AllPackages() {
		e.SSAPkgs[p.Pkg.Path()] = p
	}
	for fn := range ssautil.AllFunctions(prog) {
		e.Funcs[fn.String()] = fn
	}
	// type universe + error globals: every repo function
	var repoFns []*ssa.Function
	for _, fn := range e.Funcs {
		if pk := FnPkg(fn); pk != nil && inRepo(pk.Pkg) {
			repoFns = append(repoFns, fn)
		}
	}
	sort.Slice(repoFns, func(i, j int) bool { return repoFns[i].String() < repoFns[j].String() })
	uni := map[string]types.Type{}
	addU := func(t types.Type) {
		if _, ok := t.Underlying().(*types.Interface); ok {
			return
		}
		if _, ok := t.(*types.TypeParam); ok {
			return
		}
		uni[types.TypeString(t, nil)] = t
	}
	for _, fn := range repoFns {
		if pp := FnPkg(fn).Pkg.Path(); strings.HasSuffix(pp, "/grammar") || strings.Contains(pp, "fhirtest") || strings.Contains(pp, "/stablerand") {
			continue // generated ANTLR code and test-support packages: outside every property
		}
		for _, b := range fn.Blocks {
			for _, in := range b.Instrs {
				switch v := in.(type) {
				case *ssa.MakeInterface:
					if !isErrorType(v.Type()) {
						addU(v.X.Type())
					}
				case *ssa.TypeAssert:
					addU(v.AssertedType)
				}
			}
		}
	}
	// closed interfaces (unexported method): every implementer in the package joins the universe
	for _, p := range prog.AllPackages() {
		if !inRepo(p.Pkg) {
			continue
		}
		scope := p.Pkg.Scope()
		var ifaces []*types.Interface
		for _, n := range scope.Names() {
			if tn, ok := scope.Lookup(n).(*types.TypeName); ok {
				if it, ok := tn.Type().Underlying().(*types.Interface); ok {
					for i := 0; i < it.NumMethods(); i++ {
						if !it.Method(i).Exported() {
							ifaces = append(ifaces, it)
							break
						}
					}
				}
			}
		}
		for _, it := range ifaces {
			for _, n := range scope.Names() {
				if tn, ok := scope.Lookup(n).(*types.TypeName); ok {
					t := tn.Type()
					if _, isI := t.Underlying().(*types.Interface); isI {
						continue
					}
					if types.Implements(t, it) {
						addU(t)
					}
					if pt := types.NewPointer(t); types.Implements(pt, it) && !types.Implements(t, it) {
						addU(pt)
					}
				}
			}
		}
	}
	var keys []string
	for k := range uni {
		keys = append(keys, k)
	}
	sort.Strings(keys)
	for _, k := range keys {
		e.Sorts.AddUniverse(uni[k])
	}
	for _, p := range prog.AllPackages() {
		if !inRepo(p.Pkg) {
			continue
		}
		var names []string
		for n, m := range p.Members {
			if g, ok := m.(*ssa.Global); ok && isErrorType(g.Type().(*types.Pointer).Elem()) {
				names = append(names, n)
			}
		}
		sort.Strings(names)
		for _, n := range names {
			e.ErrGlobs = append(e.ErrGlobs, p.Members[n].(*ssa.Global))
		}
	}
	if t := e.LookupType("proto.Message"); t != nil {
		if it, ok := t.Underlying().(*types.Interface); ok {
			e.Sorts.ProtoMsg = it
			e.Sorts.ProtoMsgName = shortName(t)
		}
	}
	// sorts every prelude file may mention
	e.Sorts.SortOf(types.NewSlice(types.NewInterfaceType(nil, nil)))
	e.Sorts.SortOf(types.NewSlice(types.Typ[types.Int]))
	e.Sorts.SortOf(types.NewSlice(types.Typ[types.Bool]))
	e.Sorts.SortOf(types.NewSlice(types.Typ[types.String]))
	e.Sorts.SortOf(types.NewNamed(types.NewTypeName(0, types.NewPackage("time", "time"), "Time", nil), types.NewStruct(nil, nil), nil))
	// contracts
	pkgPathOf := func(dir string) string {
		rel, _ := filepath.Rel(repoDir, dir)
		if rel == "." {
			return repoMod
		}
		return repoMod + "/" + filepath.ToSlash(rel)
	}
	cs, files, err := LoadContracts(repoDir, filepath.Join(verifDir, "contracts", "ext"), pkgPathOf)
	if err != nil {
		return nil, err
	}
	e.Contracts, e.CFiles = cs, files
	pre, err := LoadPrelude(filepath.Join(verifDir, "contracts", "prelude"), grammarFacts(repoDir))
	if err != nil {
		return nil, err
	}
	e.Prelude = pre
	for _, tn := range pre.UsesTypes {
		t := e.LookupType(tn)
		if t == nil {
			return nil, fmt.Errorf("prelude: unknown type %q", tn)
		}
		e.Sorts.AddUniverse(t)
	}
	if data, err := os.ReadFile(filepath.Join(verifDir, "contracts", "locals.json")); err == nil {
		if err := json.Unmarshal(data, &e.BaseLocals); err != nil {
			return nil, fmt.Errorf("contracts/locals.json: %v", err)
		}
	}
	return e, nil
}

// LookupType resolves "pkgname.Name" or "*pkgname.Name" against the loaded program.
func (e *Engine) LookupType(name string) types.Type {
	ptr := strings.HasPrefix(name, "*")
	name = strings.TrimPrefix(name, "*")
	switch name {
	case "int":
		return types.Typ[types.Int]
	case "int32":
		return types.Typ[types.Int32]
	case "int64":
		return types.Typ[types.Int64]
	case "string":
		return types.Typ[types.String]
	case "bool":
		return types.Typ[types.Bool]
	case "float64":
		return types.Typ[types.Float64]
	}
	i := strings.LastIndex(name, ".")
	if i < 0 {
		return nil
	}
	pk, tn := name[:i], name[i+1:]
	if full, ok := pkgAliases[pk]; ok {
		pk = full
	}
	var found types.Type
	var paths []string
	for path := range e.SSAPkgs {
		paths = append(paths, path)
	}
	sort.Strings(paths)
	for _, path := range paths {
		p := e.SSAPkgs[path]
		if p.Pkg.Name() != pk && p.Pkg.Path() != pk {
			continue
		}
		if o := p.Pkg.Scope().Lookup(tn); o != nil {
			if tno, ok := o.(*types.TypeName); ok {
				if inRepo(p.Pkg) || found == nil {
					found = tno.Type()
				}
			}
		}
	}
	if found == nil {
		return nil
	}
	if ptr {
		return types.NewPointer(found)
	}
	return found
}

// FuncDisplayName: short stable name used in obligation names.
func FuncDisplayName(fn *ssa.Function) string {
	s := fn.String()
	s = strings.ReplaceAll(s, repoMod+"/", "")
	// keep only the last path element of package paths
	var b strings.Builder
	i := 0
	for i < len(s) {
		j := i
		for j < len(s) && (isIdentByte(s[j]) || s[j] == '/' || s[j] == '.' || s[j] == '-') {
			j++
		}
		tok := s[i:j]
		if k := strings.LastIndex(tok, "/"); k >= 0 {
			tok = tok[k+1:]
		}
		b.WriteString(tok)
		if j < len(s) {
			b.WriteByte(s[j])
		}
		i = j + 1
	}
	out := b.String()
	out = strings.NewReplacer("(", "", ")", "", "*", "").Replace(out)
	return out
}

func isIdentByte(c byte) bool {
	return c == '_' || c >= 'a' && c <= 'z' || c >= 'A' && c <= 'Z' || c >= '0' && c <= '9'
}

// FuncIndex is a stable (per run) unique number for a function: its rank among all functions.
func (e *Engine) FuncIndex(f *ssa.Function) int {
	if e.funcIdx == nil {
		var keys []string
		for k := range e.Funcs {
			keys = append(keys, k)
		}
		sort.Strings(keys)
		e.funcIdx = map[string]int{}
		for i, k := range keys {
			e.funcIdx[k] = i
		}
	}
	return e.funcIdx[f.String()]
}

// FnPkg is the package a function belongs to (instantiations: the origin's package).
func FnPkg(fn *ssa.Function) *ssa.Package {
	if fn.Pkg != nil {
		return fn.Pkg
	}
	if o := fn.Origin(); o != nil && o.Pkg != nil {
		return o.Pkg
	}
	if fn.Parent() != nil {
		return FnPkg(fn.Parent())
	}
	return nil
}

// pkgAliases: import aliases used throughout /repo's sources, accepted in contracts.
var pkgAliases = map[string]string{
	"proto": "google.golang.org/protobuf/proto",
	"protoreflect": "google.golang.org/protobuf/reflect/protoreflect",
	"dtpb":  "datatypes_go_proto",
	"bcrpb": "bundle_and_contained_resource_go_proto",
	"cpb":   "codes_go_proto",
	"ppb":   "patient_go_proto",
}

// grammarFacts turns the operator alternatives of /repo's grammar file into prelude
// definitions on every run: for each labelled alternative of the form
// `expression ('a' | 'b') expression #label` (or with the operator group first, or a type
// specifier last) it defines g4op_<label>(s) == (s is one of the listed tokens). The visitor
// contracts name these sets; editing the grammar edits the verification conditions.
// Labels the visitor contracts use but the grammar no longer has are defined as `false`, which
// makes the contract's precondition unsatisfiable and is reported by the vacuity check.
func grammarFacts(repoDir string) string {
	data, _ := os.ReadFile(filepath.Join(repoDir, "fhirpath", "internal", "grammar", "fhirpath.g4"))
	re := regexp.MustCompile(`(?m)^\s*[|:]\s*(?:expression\s+)?\(((?:\s*'[^']*'\s*\|?)+)\)\s+(?:expression|typeSpecifier)\s+#(\w+)`)
	tok := regexp.MustCompile(`'([^']*)'`)
	found := map[string]bool{}
	var b strings.Builder
	b.WriteString("; generated from fhirpath/internal/grammar/fhirpath.g4 on this run\n")
	for _, m := range re.FindAllStringSubmatch(string(data), -1) {
		var alts []string
		for _, t := range tok.FindAllStringSubmatch(m[1], -1) {
			alts = append(alts, fmt.Sprintf("(= s %q)", t[1]))
		}
		if len(alts) == 0 || found[m[2]] {
			continue
		}
		found[m[2]] = true
		fmt.Fprintf(&b, "(define-fun g4op_%s ((s String)) Bool (or %s false))\n", m[2], strings.Join(alts, " "))
	}
	for _, l := range []string{"polarityExpression", "multiplicativeExpression", "additiveExpression", "typeExpression", "inequalityExpression", "equalityExpression", "orExpression"} {
		if !found[l] {
			fmt.Fprintf(&b, "(define-fun g4op_%s ((s String)) Bool false)\n", l)
		}
	}
	return b.String()
}
