package engine

import (
	"fmt"
	"go/types"
	"sort"
	"strings"
)

// Sorts maps Go types to SMT sorts and keeps the declarations needed by a query.
//
// Encoding (DESIGN.md §3.2):
//   bool -> Bool; every integer type -> Int (range facts + explicit wrap-around);
//   string -> String; float -> Real (abstract); error -> Err (= Int, 0 is nil);
//   other interfaces -> Any (tagged datatype); pointers, maps, funcs, chans -> Int (Ref);
//   decimal.Decimal and named types over it -> Real; time.Time -> uninterpreted sort;
//   structs of /repo -> datatypes; external structs by value -> uninterpreted sorts;
//   slices -> datatype (arr, len, cap, own, nn).
type Sorts struct {
	universe   []types.Type          // concrete types with their own Any constructor
	ctorOf     map[string]string     // types.TypeString -> ctor name
	ctorType   map[string]types.Type // ctor name -> type
	structs    map[string]*structInfo
	slices     map[string]string // slice sort -> elem sort
	usorts     map[string]bool   // uninterpreted sorts
	order      []string          // declaration order of datatype sorts (structs+slices)
	ifaceNames map[string]*types.Interface
	byName     map[string]types.Type // "pkg.Name" -> named type (for spec lookups)
	ProtoMsg   *types.Interface
	ProtoMsgName string
	predeclared map[string]bool
}

type structInfo struct {
	sort   string
	fields []string // selector names
	fsorts []string
	gotype *types.Struct
	named  types.Type
}

func NewSorts() *Sorts {
	return &Sorts{ctorOf: map[string]string{}, ctorType: map[string]types.Type{}, structs: map[string]*structInfo{},
		slices: map[string]string{}, usorts: map[string]bool{}, ifaceNames: map[string]*types.Interface{}, byName: map[string]types.Type{}}
}

func mangle(s string) string {
	var b strings.Builder
	for _, r := range s {
		switch {
		case r >= 'a' && r <= 'z', r >= 'A' && r <= 'Z', r >= '0' && r <= '9', r == '_':
			b.WriteRune(r)
		case r == '*':
			b.WriteString("p_")
		case r == '.' || r == '/':
			b.WriteRune('_')
		case r == '[':
			b.WriteString("L")
		case r == ']':
			b.WriteString("R")
		default:
			b.WriteRune('_')
		}
	}
	return b.String()
}

// shortName renders a type with package *names* (not paths): system.Integer, *dtpb.Boolean.
func shortName(t types.Type) string {
	t = types.Unalias(t)
	return types.TypeString(t, func(p *types.Package) string { return p.Name() })
}

func isErrorType(t types.Type) bool {
	if n, ok := t.(*types.Named); ok && n.Obj().Pkg() == nil && n.Obj().Name() == "error" {
		return true
	}
	return false
}

func isDecimal(t types.Type) bool {
	n, ok := t.(*types.Named)
	if !ok {
		return false
	}
	if n.Obj().Pkg() != nil && n.Obj().Pkg().Path() == "github.com/shopspring/decimal" && n.Obj().Name() == "Decimal" {
		return true
	}
	if u, ok := n.Underlying().(*types.Struct); ok {
		_ = u
		// named type whose underlying type is decimal.Decimal's struct: system.Decimal
		if n.Obj().Pkg() != nil && n.Obj().Name() == "Decimal" && strings.HasSuffix(n.Obj().Pkg().Path(), "fhirpath/system") {
			return true
		}
	}
	return false
}

func isTimeTime(t types.Type) bool {
	n, ok := t.(*types.Named)
	return ok && n.Obj().Pkg() != nil && n.Obj().Pkg().Path() == "time" && n.Obj().Name() == "Time"
}

const repoMod = "github.com/verily-src/fhirpath-go"

func inRepo(p *types.Package) bool {
	return p != nil && strings.HasPrefix(p.Path(), repoMod)
}

// SortOf returns the SMT sort for a Go type, registering declarations as needed.
func (s *Sorts) SortOf(t types.Type) string {
	if isErrorType(t) {
		return "Err"
	}
	if isDecimal(t) {
		return "Real"
	}
	if isTimeTime(t) {
		s.usorts["Time"] = true
		return "Time"
	}
	switch u := t.Underlying().(type) {
	case *types.Basic:
		switch {
		case u.Info()&types.IsBoolean != 0:
			return "Bool"
		case u.Info()&types.IsInteger != 0:
			return "Int"
		case u.Info()&types.IsString != 0:
			return "String"
		case u.Info()&types.IsFloat != 0:
			return "Real"
		case u.Kind() == types.UnsafePointer:
			return "Int"
		case u.Kind() == types.UntypedNil:
			return "Int"
		}
		return "Int"
	case *types.Interface:
		return "Any"
	case *types.Pointer, *types.Map, *types.Signature, *types.Chan:
		return "Int"
	case *types.Slice:
		es := s.SortOf(u.Elem())
		name := "Slice_" + es
		if _, ok := s.slices[name]; !ok {
			s.slices[name] = es
			s.order = append(s.order, name)
		}
		return name
	case *types.Array:
		return "(Array Int " + s.SortOf(u.Elem()) + ")"
	case *types.Struct:
		key := shortName(t)
		if n, ok := t.(*types.Named); ok {
			if !inRepo(n.Obj().Pkg()) {
				us := "X_" + mangle(key)
				s.usorts[us] = true
				return us
			}
		}
		name := "S_" + mangle(key)
		if _, ok := s.structs[name]; ok {
			return name
		}
		si := &structInfo{sort: name, gotype: u, named: t}
		s.structs[name] = si // register first (recursion through pointers is Int anyway)
		for i := 0; i < u.NumFields(); i++ {
			f := u.Field(i)
			si.fields = append(si.fields, fmt.Sprintf("%s_%s", name, f.Name()))
			si.fsorts = append(si.fsorts, s.SortOf(f.Type()))
		}
		s.order = append(s.order, name)
		return name
	case *types.Tuple:
		return "TUPLE"
	case *types.TypeParam:
		return "Any"
	}
	return "Int"
}

func (s *Sorts) StructInfo(sortName string) *structInfo { return s.structs[sortName] }

// AddUniverse registers a concrete (non-interface) type as having its own Any constructor.
func (s *Sorts) AddUniverse(t types.Type) {
	if _, ok := t.Underlying().(*types.Interface); ok {
		return
	}
	if _, ok := t.(*types.Tuple); ok {
		return
	}
	if b, ok := t.(*types.Basic); ok && b.Kind() == types.UntypedNil {
		return
	}
	key := types.TypeString(t, nil)
	if _, ok := s.ctorOf[key]; ok {
		return
	}
	name := "b_" + mangle(shortName(t))
	for i := 2; ; i++ {
		if _, clash := s.ctorType[name]; !clash {
			break
		}
		name = fmt.Sprintf("b_%s_%d", mangle(shortName(t)), i)
	}
	s.ctorOf[key] = name
	s.ctorType[name] = t
	s.universe = append(s.universe, t)
	s.byName[shortName(t)] = t
}

func (s *Sorts) Ctor(t types.Type) (string, bool) {
	c, ok := s.ctorOf[types.TypeString(t, nil)]
	return c, ok
}

// payloadSort is the sort stored in the Any constructor for type t. Sorts that
// (transitively) mention Any are stored as an Int handle with an unboxing UF.
func (s *Sorts) payloadSort(t types.Type) (sortName string, handle bool) {
	so := s.SortOf(t)
	if s.mentionsAny(so, map[string]bool{}) {
		return "Int", true
	}
	return so, false
}

func (s *Sorts) mentionsAny(so string, seen map[string]bool) bool {
	if so == "Any" {
		return true
	}
	if seen[so] {
		return false
	}
	seen[so] = true
	if es, ok := s.slices[so]; ok {
		return s.mentionsAny(es, seen)
	}
	if si, ok := s.structs[so]; ok {
		for _, f := range si.fsorts {
			if s.mentionsAny(f, seen) {
				return true
			}
		}
	}
	if strings.HasPrefix(so, "(Array Int ") {
		return s.mentionsAny(strings.TrimSuffix(strings.TrimPrefix(so, "(Array Int "), ")"), seen)
	}
	return false
}

// Box wraps term (of Go type t) into Any.
func (s *Sorts) Box(t types.Type, term string) (string, []string) {
	c, ok := s.Ctor(t)
	if !ok {
		// not in the universe: an "other" value with an opaque tag derived from the type
		tag := otherTag(t)
		return fmt.Sprintf("(b_other %d (oid_%s %s))", tag, mangle(s.SortOf(t)), term), nil
	}
	_, h := s.payloadSort(t)
	if h {
		so := s.SortOf(t)
		m := mangle(so)
		return fmt.Sprintf("(%s (hbox_%s %s))", c, m, term), []string{fmt.Sprintf("(= (hunbox_%s (hbox_%s %s)) %s)", m, m, term, term)}
	}
	return fmt.Sprintf("(%s %s)", c, term), nil
}

var otherTags = map[string]int{}

func otherTag(t types.Type) int {
	k := types.TypeString(t, nil)
	if v, ok := otherTags[k]; ok {
		return v
	}
	v := 1000 + len(otherTags)
	otherTags[k] = v
	return v
}

// Unbox projects an Any term known to hold type t.
func (s *Sorts) Unbox(t types.Type, term string) string {
	c, ok := s.Ctor(t)
	if !ok {
		return fmt.Sprintf("(unoid_%s (oid %s))", mangle(s.SortOf(t)), term)
	}
	_, h := s.payloadSort(t)
	if h {
		return fmt.Sprintf("(hunbox_%s (u%s %s))", mangle(s.SortOf(t)), c, term)
	}
	return fmt.Sprintf("(u%s %s)", c, term)
}

// IsType is the tester "dynamic type of term is exactly t".
func (s *Sorts) IsType(t types.Type, term string) string {
	c, ok := s.Ctor(t)
	if !ok {
		return fmt.Sprintf("(and ((_ is b_other) %s) (= (otag %s) %d))", term, term, otherTag(t))
	}
	return fmt.Sprintf("((_ is %s) %s)", c, term)
}

// Implements is "dynamic type of term implements iface".
func (s *Sorts) Implements(iface *types.Interface, ifaceName string, term string) string {
	if iface.NumMethods() == 0 {
		return fmt.Sprintf("(not ((_ is nil_any) %s))", term)
	}
	var cases []string
	for _, t := range s.universe {
		if types.Implements(t, iface) {
			cases = append(cases, s.IsType(t, term))
		}
	}
	// an interface with an unexported method can only be implemented inside its own package:
	// its implementers form a closed set (all of them are in the type universe)
	closed := false
	for i := 0; i < iface.NumMethods(); i++ {
		if m := iface.Method(i); !m.Exported() && inRepo(m.Pkg()) {
			closed = true
		}
	}
	if !closed {
		nm := "impl_" + mangle(ifaceName)
		s.ifaceNames[nm] = iface
		cases = append(cases, fmt.Sprintf("(and ((_ is b_other) %s) (%s (otag %s)))", term, nm, term))
	}
	if len(cases) == 0 {
		return "false"
	}
	return "(or " + strings.Join(cases, " ") + ")"
}

// Decls emits the sort/datatype declarations. Order: uninterpreted sorts, Err,
// datatypes not mentioning Any, Any, the rest.
func (s *Sorts) Decls() string {
	var b strings.Builder
	b.WriteString("(define-sort Err () Int)\n")
	// force payload sorts to be registered before anything is emitted
	for _, t := range s.universe {
		s.payloadSort(t)
	}
	var us []string
	for u := range s.usorts {
		us = append(us, u)
	}
	sort.Strings(us)
	for _, u := range us {
		fmt.Fprintf(&b, "(declare-sort %s 0)\n(declare-const zero_%s %s)\n", u, u, u)
	}
	// force payload sorts to be registered before we freeze the order
	for _, t := range s.universe {
		s.payloadSort(t)
	}
	emit := func(name string) {
		if es, ok := s.slices[name]; ok {
			m := strings.TrimPrefix(name, "Slice_")
			fmt.Fprintf(&b, "(declare-datatypes ((%s 0)) (((mk_%s (arr_%s (Array Int %s)) (len_%s Int) (cap_%s Int) (own_%s Bool) (nn_%s Bool)))))\n",
				name, name, m, es, m, m, m, m)
			return
		}
		si := s.structs[name]
		fmt.Fprintf(&b, "(declare-datatypes ((%s 0)) (((mk_%s", name, name)
		if len(si.fields) == 0 {
			fmt.Fprintf(&b, " (%s_dummy Int)", name)
		}
		for i, f := range si.fields {
			fmt.Fprintf(&b, " (%s %s)", f, si.fsorts[i])
		}
		b.WriteString("))))\n")
	}
	done := map[string]bool{}
	var emitDeps func(name string)
	emitDeps = func(name string) {
		if done[name] {
			return
		}
		done[name] = true
		var deps []string
		if es, ok := s.slices[name]; ok {
			deps = []string{es}
		} else if si, ok := s.structs[name]; ok {
			deps = si.fsorts
		}
		for _, d := range deps {
			d = strings.TrimSuffix(strings.TrimPrefix(d, "(Array Int "), ")")
			if _, ok := s.slices[d]; ok {
				emitDeps(d)
			} else if _, ok := s.structs[d]; ok {
				emitDeps(d)
			}
		}
		emit(name)
	}
	names := append([]string(nil), s.order...)
	for _, n := range names {
		if !s.mentionsAny(n, map[string]bool{}) {
			emitDeps(n)
		}
	}
	// Any
	b.WriteString("(declare-datatypes ((Any 0)) (((nil_any)")
	for _, t := range s.universe {
		c, _ := s.Ctor(t)
		ps, _ := s.payloadSort(t)
		fmt.Fprintf(&b, " (%s (u%s %s))", c, c, ps)
	}
	b.WriteString(" (b_error (ub_error Int)) (b_other (otag Int) (oid Int)))))\n")
	for _, n := range names {
		if s.mentionsAny(n, map[string]bool{}) {
			emitDeps(n)
		}
	}
	var sl []string
	for n := range s.slices {
		sl = append(sl, n)
	}
	sort.Strings(sl)
	for _, n := range sl {
		fmt.Fprintf(&b, "(declare-const emptyarr_%s (Array Int %s))\n", strings.TrimPrefix(n, "Slice_"), s.slices[n])
	}
	// validItem: a collection item of the property's input domain: not nil, not a typed-nil pointer
	b.WriteString("(define-fun validItem ((x Any)) Bool (and (not ((_ is nil_any) x))")
	for _, t := range s.universe {
		switch t.Underlying().(type) {
		case *types.Pointer, *types.Map, *types.Signature:
			c, _ := s.Ctor(t)
			fmt.Fprintf(&b, " (=> ((_ is %s) x) (> (u%s x) 0))", c, c)
		}
	}
	b.WriteString("))\n")
	if s.ProtoMsg != nil {
		nm := "impl_" + mangle(s.ProtoMsgName)
		fmt.Fprintf(&b, "(declare-fun %s (Int) Bool)\n", nm)
		s.predeclared = map[string]bool{nm: true}
		fmt.Fprintf(&b, "(define-fun isProtoMsg ((x Any)) Bool %s)\n", s.Implements(s.ProtoMsg, s.ProtoMsgName, "x"))
	}
	if _, ok := s.slices["Slice_Any"]; ok {
		b.WriteString("(define-fun validColl ((c Slice_Any)) Bool (forall ((i!v Int)) (! (=> (and (<= 0 i!v) (< i!v (len_Any c))) (validItem (select (arr_Any c) i!v))) :pattern ((select (arr_Any c) i!v)))))\n")
	}
	// handle boxing UFs for Any-mentioning payloads
	seenH := map[string]bool{}
	for _, t := range s.universe {
		if _, h := s.payloadSort(t); h {
			so := s.SortOf(t)
			m := mangle(so)
			if seenH[m] {
				continue
			}
			seenH[m] = true
			fmt.Fprintf(&b, "(declare-fun hbox_%s (%s) Int)\n(declare-fun hunbox_%s (Int) %s)\n", m, so, m, so)
		}
	}
	return b.String()
}

// OtherDecls emits the UFs used for non-universe boxing and interface membership;
// which ones are needed is found by scanning the query text.
func (s *Sorts) OtherDecls(query string) string {
	var b strings.Builder
	seen := map[string]bool{}
	for _, tok := range tokenScan(query, "oid_") {
		if seen[tok] {
			continue
		}
		seen[tok] = true
		so := s.unmangleSort(strings.TrimPrefix(tok, "oid_"))
		fmt.Fprintf(&b, "(declare-fun %s (%s) Int)\n", tok, so)
	}
	for _, tok := range tokenScan(query, "unoid_") {
		if seen[tok] {
			continue
		}
		seen[tok] = true
		so := s.unmangleSort(strings.TrimPrefix(tok, "unoid_"))
		fmt.Fprintf(&b, "(declare-fun %s (Int) %s)\n", tok, so)
	}
	for _, tok := range tokenScan(query, "sprintf_") {
		if seen[tok] {
			continue
		}
		seen[tok] = true
		sorts := []string{"String"}
		for _, c := range strings.TrimPrefix(tok, "sprintf_") {
			if c == 'I' {
				sorts = append(sorts, "Int")
			} else {
				sorts = append(sorts, "String")
			}
		}
		fmt.Fprintf(&b, "(declare-fun %s (%s) String)\n", tok, strings.Join(sorts, " "))
	}
	var ins []string
	for n := range s.ifaceNames {
		ins = append(ins, n)
	}
	sort.Strings(ins)
	for _, n := range ins {
		if s.predeclared[n] {
			continue
		}
		if strings.Contains(query, n+" ") {
			fmt.Fprintf(&b, "(declare-fun %s (Int) Bool)\n", n)
		}
	}
	return b.String()
}

func (s *Sorts) unmangleSort(m string) string {
	for _, c := range []string{"Int", "Bool", "String", "Real", "Any", "Err", "Time"} {
		if m == c {
			return c
		}
	}
	for n := range s.slices {
		if mangle(n) == m {
			return n
		}
	}
	for n := range s.structs {
		if mangle(n) == m {
			return n
		}
	}
	for n := range s.usorts {
		if mangle(n) == m {
			return n
		}
	}
	return "Int"
}

func tokenScan(text, prefix string) []string {
	var out []string
	i := 0
	for {
		j := strings.Index(text[i:], prefix)
		if j < 0 {
			return out
		}
		j += i
		// must start at a token boundary
		if j > 0 {
			c := text[j-1]
			if c != '(' && c != ' ' && c != '\n' {
				i = j + len(prefix)
				continue
			}
		}
		k := j
		for k < len(text) && text[k] != ' ' && text[k] != ')' && text[k] != '(' && text[k] != '\n' {
			k++
		}
		out = append(out, text[j:k])
		i = k
	}
}

// intRange returns the inclusive range of a Go integer type.
func intRange(t types.Type) (lo, hi string, ok bool) {
	b, isB := t.Underlying().(*types.Basic)
	if !isB || b.Info()&types.IsInteger == 0 {
		return "", "", false
	}
	switch b.Kind() {
	case types.Int8:
		return "(- 128)", "127", true
	case types.Int16:
		return "(- 32768)", "32767", true
	case types.Int32:
		return "(- 2147483648)", "2147483647", true
	case types.Int64, types.Int, types.UntypedInt:
		return "(- 9223372036854775808)", "9223372036854775807", true
	case types.Uint8:
		return "0", "255", true
	case types.Uint16:
		return "0", "65535", true
	case types.Uint32:
		return "0", "4294967295", true
	case types.Uint64, types.Uint, types.Uintptr:
		return "0", "18446744073709551615", true
	}
	return "", "", false
}

func intBits(t types.Type) (bits int, signed bool) {
	b, isB := t.Underlying().(*types.Basic)
	if !isB {
		return 64, true
	}
	switch b.Kind() {
	case types.Int8:
		return 8, true
	case types.Int16:
		return 16, true
	case types.Int32:
		return 32, true
	case types.Int64, types.Int, types.UntypedInt:
		return 64, true
	case types.Uint8:
		return 8, false
	case types.Uint16:
		return 16, false
	case types.Uint32:
		return 32, false
	case types.Uint64, types.Uint, types.Uintptr:
		return 64, false
	}
	return 64, true
}

func pow2(n int) string {
	switch n {
	case 7:
		return "128"
	case 8:
		return "256"
	case 15:
		return "32768"
	case 16:
		return "65536"
	case 31:
		return "2147483648"
	case 32:
		return "4294967296"
	case 63:
		return "9223372036854775808"
	case 64:
		return "18446744073709551616"
	}
	panic("pow2")
}
