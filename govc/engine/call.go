package engine

import (
	"fmt"
	"go/token"
	"go/types"
	"regexp"
	"strings"

	"golang.org/x/tools/go/ssa"
)

func (r *run) execCall(fr *frame, st *State, instr ssa.Value, c *ssa.CallCommon, reach string) Val {
	pos := c.Pos()
	var args []Val
	for _, a := range c.Args {
		args = append(args, r.val(fr, st, a))
	}
	sig := c.Signature()
	wrapRes := func(rs []Val) Val {
		switch sig.Results().Len() {
		case 0:
			return Val{}
		case 1:
			if len(rs) != 1 {
				r.unsupported("result arity mismatch calling %s", c.String())
			}
			return rs[0]
		}
		return Val{Sort: "TUPLE", Tup: rs, Type: sig.Results()}
	}
	if b, ok := c.Value.(*ssa.Builtin); ok {
		return r.execBuiltin(fr, st, b, c, args, reach, instr)
	}
	if c.IsInvoke() {
		recv := r.val(fr, st, c.Value)
		return wrapRes(r.invoke(fr, st, c, recv, args, reach, pos))
	}
	if callee := c.StaticCallee(); callee != nil {
		r.curCall = c
		var bindings []Val
		if mc, ok := c.Value.(*ssa.MakeClosure); ok {
			for _, b := range mc.Bindings {
				bindings = append(bindings, r.val(fr, st, b))
			}
		}
		return wrapRes(r.callStatic(fr, st, callee, args, bindings, reach, pos, sig))
	}
	// dynamic call through a function value
	fv := r.val(fr, st, c.Value)
	if fv.Fn != nil && fv.Fn.Fn != nil {
		return wrapRes(r.callStatic(fr, st, fv.Fn.Fn, args, fv.Fn.Bindings, reach, pos, sig))
	}
	if len(fv.FnAlts) > 0 {
		return wrapRes(r.dispatchAlts(fr, st, fv, args, reach, pos, sig))
	}
	if ct := r.dynContract(c); ct != nil {
		ct.Used = true
		if len(ct.Candidates) > 0 {
			return wrapRes(r.dispatchCandidates(fr, st, ct, fv, args, reach, pos, sig))
		}
		r.oblige(fr.name, "nil-func-call", reach, fmt.Sprintf("(not (= %s 0))", fv.Term), "call through function value "+c.Value.Name(), pos)
		return wrapRes(r.applyContract(fr, st, ct, sig, nil, args, reach, pos, "dynamic:"+ct.Key))
	}
	r.oblige(fr.name, "nil-func-call", reach, fmt.Sprintf("(not (= %s 0))", fv.Term), "call through function value "+c.Value.Name(), pos)
	r.assumed["default (total, pure, unconstrained result): dynamic call "+c.Value.Type().String()] = true
	return wrapRes(r.defaultResults(sig, st))
}

// dynContract finds the contract governing a dynamic call: the struct field the function
// value was loaded from, or the named function type.
func (r *run) dynContract(c *ssa.CallCommon) *Contract {
	if c.IsInvoke() {
		if n, ok := types.Unalias(c.Value.Type()).(*types.Named); ok && n.Obj().Pkg() != nil {
			if ct := r.eng.Contracts["iface:"+n.Obj().Pkg().Path()+"."+n.Obj().Name()+"."+c.Method.Name()]; ct != nil {
				return ct
			}
		}
		// the interface that declares the method (embedded interfaces)
		if sig, ok := c.Method.Type().(*types.Signature); ok && sig.Recv() != nil {
			if n, ok := types.Unalias(sig.Recv().Type()).(*types.Named); ok && n.Obj().Pkg() != nil {
				return r.eng.Contracts["iface:"+n.Obj().Pkg().Path()+"."+n.Obj().Name()+"."+c.Method.Name()]
			}
		}
		return nil
	}
	v := c.Value
	if u, ok := v.(*ssa.UnOp); ok && u.Op == token.MUL {
		if fa, ok := u.X.(*ssa.FieldAddr); ok {
			st := fa.X.Type().Underlying().(*types.Pointer).Elem()
			if n, ok := st.(*types.Named); ok && n.Obj().Pkg() != nil {
				f := st.Underlying().(*types.Struct).Field(fa.Field)
				if ct := r.eng.Contracts["field:"+n.Obj().Pkg().Path()+"."+n.Obj().Name()+"."+f.Name()]; ct != nil {
					return ct
				}
			}
		}
	}
	if f, ok := v.(*ssa.Field); ok {
		if n, ok := f.X.Type().(*types.Named); ok && n.Obj().Pkg() != nil {
			fld := n.Underlying().(*types.Struct).Field(f.Field)
			if ct := r.eng.Contracts["field:"+n.Obj().Pkg().Path()+"."+n.Obj().Name()+"."+fld.Name()]; ct != nil {
				return ct
			}
		}
	}
	if n, ok := v.Type().(*types.Named); ok && n.Obj().Pkg() != nil {
		return r.eng.Contracts["field:"+n.Obj().Pkg().Path()+"."+n.Obj().Name()]
	}
	return nil
}

func (r *run) defaultResults(sig *types.Signature, st *State) []Val {
	var out []Val
	for i := 0; i < sig.Results().Len(); i++ {
		v := r.symbolic("res", sig.Results().At(i).Type())
		r.refFact(st, v.Type, v.Term)
		out = append(out, v)
	}
	return out
}

var wVerb = regexp.MustCompile(`%(\[\d+\])?[+#\-0 ]*[\d.]*[a-zA-Z%]`)

func (r *run) callStatic(fr *frame, st *State, callee *ssa.Function, args, bindings []Val, reach string, pos token.Pos, sig *types.Signature) []Val {
	key := callee.String()
	switch key {
	case "fmt.Errorf":
		return []Val{r.errorf(fr, st, args, reach)}
	case "fmt.Sprintf":
		if v, ok := r.sprintf(args); ok {
			return []Val{v}
		}
	case "errors.New":
		e := r.fresh("err", "Err")
		r.assume("true", fmt.Sprintf("(< 0 %s)", e))
		r.errNoSentinel(e)
		return []Val{{Term: e, Sort: "Err", Type: sig.Results().At(0).Type()}}
	case repoMod + "/fhirpath/system.callTryEqual":
		return r.reflectDispatch(fr, st, "TryEqual", args[0], args[1], reach, pos, true)
	case repoMod + "/fhirpath/system.callBinaryComparator":
		name, ok := smtUnescape(args[0].Term)
		if !ok {
			r.unsupported("callBinaryComparator with a non-constant method name")
		}
		return r.reflectDispatch(fr, st, name, args[1], args[2], reach, pos, false)
	case "errors.Is":
		return []Val{{Term: fmt.Sprintf("(and (not (= %s 0)) (err_is %s %s))", args[0].Term, args[0].Term, args[1].Term), Sort: "Bool", Type: types.Typ[types.Bool]}}
	}
	if callee.Name() == "init" && callee.Synthetic != "" {
		// initialisers of imported packages have run before this package's own
		r.assumed["package initialisers of imported packages are not followed: "+key] = true
		return nil
	}
	ct := r.eng.Contracts[key]
	if ct == nil && callee.Origin() != nil {
		ct = r.eng.Contracts[callee.Origin().String()]
	}
	if ct != nil && !ct.Inline {
		ct.Used = true
		// a contracted closure called from its parent: the contract names captured variables,
		// which are bound to the current contents of the captured cells. A closure that stores
		// into a captured variable cannot be summarised this way.
		if len(callee.FreeVars) > 0 && len(bindings) == len(callee.FreeVars) {
			caps := map[string]SVal{}
			for i, fv := range callee.FreeVars {
				b := bindings[i]
				if b.Loc != nil {
					v := r.load(st, b.Loc, reach)
					if v.Loc == nil && v.Tup == nil && v.Fn == nil {
						caps[fv.Name()] = SVal{Term: v.Term, Sort: v.Sort, Type: v.Type}
					}
				} else if b.Term != "" {
					if _, isPtr := fv.Type().Underlying().(*types.Pointer); !isPtr {
						caps[fv.Name()] = SVal{Term: b.Term, Sort: b.Sort, Type: b.Type}
					} else {
						// an escaping variable lives in a heap cell: read through the pointer
						l := r.asLoc(fr, st, b, fv, "false", fv.Pos())
						v := r.load(st, l, "false")
						if v.Loc == nil && v.Tup == nil && v.Fn == nil {
							caps[fv.Name()] = SVal{Term: v.Term, Sort: v.Sort, Type: v.Type}
						}
					}
				}
				for _, ref := range *fv.Referrers() {
					if sto, ok := ref.(*ssa.Store); ok && sto.Addr == fv {
						r.unsupported("contracted closure %s stores into captured variable %s", key, fv.Name())
					}
				}
			}
			r.pendingCaps = caps
		}
		return r.applyContract(fr, st, ct, callee.Signature, callee, args, reach, pos, key)
	}
	if r.canInline(callee) {
		if res, ok := r.tryInline(fr, st, callee, args, bindings, reach, ct); ok {
			return res
		}
		return r.defaultResults(callee.Signature, st)
	}
	if callee.Synthetic != "" && callee.Blocks != nil && len(r.stack) < r.depthCap+2 {
		// wrappers / thunks / bound methods: always followed
		return r.inline(fr, st, callee, args, bindings, reach, ct)
	}
	r.assumed["default (total, pure, unconstrained result): "+key] = true
	return r.defaultResults(callee.Signature, st)
}

func (r *run) inline(fr *frame, st *State, callee *ssa.Function, args, bindings []Val, reach string, ct *Contract) []Val {
	nf := &frame{fn: callee, name: FuncDisplayName(callee), vals: map[ssa.Value]Val{}, root: fr.root, depth: fr.depth + 1, contract: ct, params: map[string]Val{}}
	for i, p := range callee.Params {
		if i < len(args) {
			nf.params[p.Name()] = args[i]
		}
	}
	for i, fvb := range callee.FreeVars {
		if i < len(bindings) {
			nf.vals[fvb] = bindings[i]
		}
	}
	r.inlined[callee.String()] = true
	res, outSt, outReach := r.execBody(nf, st, reach, args)
	if outReach == "false" || res == nil && callee.Signature.Results().Len() > 0 {
		// never returns normally
		*st = *st.clone()
		r.assume(reach, "false")
		return r.defaultResults(callee.Signature, st)
	}
	*st = *outSt.clone()
	// after the call, control continues only if the callee returned
	if outReach != reach {
		r.assume(reach, outReach)
	}
	return res
}

// errorf models fmt.Errorf: a fresh non-nil error that "is" whatever its %w operands are.
func (r *run) errorf(fr *frame, st *State, args []Val, reach string) Val {
	e := r.fresh("err", "Err")
	r.assume("true", fmt.Sprintf("(< 0 %s)", e))
	// args[0] format (maybe constant), args[1] the variadic slice: we need the original operands
	// which the caller packed into a []any; recover them from the slice term when possible.
	var wrapped []string
	if len(args) == 2 {
		format := args[0].Term
		if strings.HasPrefix(format, "\"") {
			verbs := wVerb.FindAllString(format, -1)
			idx := 0
			for _, v := range verbs {
				if v == "%%" {
					continue
				}
				if strings.HasSuffix(v, "w") {
					m := strings.TrimPrefix(args[1].Sort, "Slice_")
					el := fmt.Sprintf("(select (arr_%s %s) %d)", m, args[1].Term, idx)
					wrapped = append(wrapped, fmt.Sprintf("(ite ((_ is b_error) %s) (ub_error %s) 0)", el, el))
				}
				idx++
			}
		} else {
			r.assumed["abstraction: fmt.Errorf with non-constant format wraps nothing known"] = true
		}
	}
	for _, g := range r.sentinels {
		gt := r.globalInit(g).Term
		var cs []string
		for _, w := range wrapped {
			cs = append(cs, fmt.Sprintf("(and (not (= %s 0)) (err_is %s %s))", w, w, gt))
		}
		r.assume("true", fmt.Sprintf("(= (err_is %s %s) %s)", e, gt, or(cs...)))
	}
	return Val{Term: e, Sort: "Err"}
}

func (r *run) errNoSentinel(e string) {
	for _, g := range r.sentinels {
		gt := r.globalInit(g).Term
		r.assume("true", fmt.Sprintf("(not (err_is %s %s))", e, gt))
	}
}

func (r *run) invoke(fr *frame, st *State, c *ssa.CallCommon, recv Val, args []Val, reach string, pos token.Pos) []Val {
	sig := c.Signature()
	mname := c.Method.Name()
	if recv.Sort == "Err" {
		r.oblige(fr.name, "nil-deref", reach, fmt.Sprintf("(not (= %s 0))", recv.Term), "method call on error value", pos)
		return r.defaultResults(sig, st)
	}
	r.oblige(fr.name, "nil-deref", reach, fmt.Sprintf("(not ((_ is nil_any) %s))", recv.Term), "method "+mname+" called on interface value "+c.Value.Name(), pos)
	if ct := r.dynContract(c); ct != nil {
		ct.Used = true
		return r.applyContract(fr, st, ct, sig, nil, append([]Val{recv}, args...), reach, pos, ct.Key)
	}
	// dispatch over the implementations in the type universe
	iface := c.Value.Type().Underlying().(*types.Interface)
	type caseRes struct {
		guard string
		res   []Val
		st    *State
	}
	var cases []caseRes
	var guards []string
	for _, t := range r.eng.Sorts.universe {
		if !types.Implements(t, iface) {
			continue
		}
		sel := r.eng.Prog.MethodSets.MethodSet(t).Lookup(c.Method.Pkg(), mname)
		if sel == nil {
			continue
		}
		m := r.eng.Prog.MethodValue(sel)
		if m == nil {
			continue
		}
		pk := m.Pkg
		if pk == nil || !inRepo(pk.Pkg) {
			// implementation outside the repo: lumped with "other" unless it carries an
			// assumed contract (contracts/ext)
			if r.eng.Contracts[m.String()] == nil {
				continue
			}
		}
		g := r.eng.Sorts.IsType(t, recv.Term)
		guards = append(guards, g)
		cst := st.clone()
		rv := Val{Term: r.eng.Sorts.Unbox(t, recv.Term), Sort: r.eng.Sorts.SortOf(t), Type: t}
		res := r.callStatic(fr, cst, m, append([]Val{rv}, args...), nil, and(reach, g), pos, m.Signature)
		cases = append(cases, caseRes{g, res, cst})
	}
	other := not(or(guards...))
	ost := st.clone()
	r.assumed["default (total, pure, unconstrained result): method "+mname+" on dynamic types outside the repo"] = true
	cases = append(cases, caseRes{other, r.defaultResults(sig, ost), ost})
	var edges []inEdge
	for _, cs := range cases {
		edges = append(edges, inEdge{cond: and(reach, cs.guard), st: cs.st})
	}
	ms, _ := r.mergeStates(edges)
	*st = *ms.clone()
	var out []Val
	for i := 0; i < sig.Results().Len(); i++ {
		var col []Val
		for _, cs := range cases {
			col = append(col, cs.res[i])
		}
		out = append(out, r.mergeVals(edges, col, "disp"))
	}
	return out
}

// applyContract: assert requires, havoc the frame, assume ensures.
func (r *run) applyContract(fr *frame, st *State, ct *Contract, sig *types.Signature, callee *ssa.Function, args []Val, reach string, pos token.Pos, label string) []Val {
	env := r.newEnv(fr, st)
	env.fr = nil
	env.extra = map[string]SVal{}
	if callee != nil {
		if callee.Pkg != nil {
			env.pkg = callee.Pkg.Pkg
		} else if callee.Origin() != nil && callee.Origin().Pkg != nil {
			env.pkg = callee.Origin().Pkg.Pkg
		}
	} else if strings.HasPrefix(ct.Key, "iface:") || strings.HasPrefix(ct.Key, "field:") {
		k := ct.Key[strings.Index(ct.Key, ":")+1:]
		// strip .Type.Member
		for i := 0; i < 2; i++ {
			if j := strings.LastIndex(k, "."); j > 0 {
				k = k[:j]
			}
			if sp := r.eng.SSAPkgs[k]; sp != nil {
				env.pkg = sp.Pkg
				break
			}
		}
	}
	for n, v := range r.pendingCaps {
		env.extra[n] = v
	}
	r.pendingCaps = nil
	names := ct.ParamNames
	if len(names) != len(args) {
		r.unsupported("contract %s binds %d parameters, call has %d", ct.Key, len(names), len(args))
	}
	for i, n := range names {
		env.extra[n] = SVal{Term: args[i].Term, Sort: args[i].Sort, Type: args[i].Type}
		if args[i].Loc != nil {
			// A pointer to a chain of first (embedded) fields of a heap object has the address of
			// the object itself. It may be handed to an assumed callee that writes nothing (the
			// callee can then only name it through spec functions); anything else stays out of the
			// subset, because field writes through the interior pointer are not modelled.
			if root := firstFieldRoot(args[i].Loc); root != "" && ct.Trusted && ct.AssignsSet && len(ct.Assigns) == 0 {
				env.extra[n] = SVal{Term: root, Sort: "Int", Type: args[i].Type}
				args[i] = Val{Term: root, Sort: "Int", Type: args[i].Type}
				continue
			}
			r.unsupported("static pointer passed to contracted callee %s", ct.Key)
		}
	}
	cname := label
	if callee != nil {
		cname = FuncDisplayName(callee)
	}
	kind := "requires-at-call"
	if ct.Trusted {
		kind = "callee-pre"
		r.assumed["assumed contract: "+ct.Key] = true
	}
	for _, l := range ct.Lets {
		env.extra[l.Name] = env.tr(l.Expr)
	}
	for _, rq := range ct.Requires {
		t := r.specBool(env, rq.Expr, rq.Text)
		r.oblige(fr.name, kind, reach, t, fmt.Sprintf("%s requires %s", cname, rq.Text), pos)
	}
	r.frameCall(fr, st, ct, env, cname, reach, pos)
	// recursion: the measure decreases and is bounded below
	if callee != nil && fr.root != nil && callee == fr.root.fn {
		if ct.Decreases == nil {
			r.oblige(fr.name, "decreases", reach, "false", "recursive call without a termination measure", pos)
		} else {
			newM := env.tr(ct.Decreases.Expr).Term
			oenv := r.newEnv(fr.root, r.entry)
			oenv.ensMode = true
			oldM := oenv.tr(ct.Decreases.Expr).Term
			r.oblige(fr.name, "decreases", reach, fmt.Sprintf("(and (<= 0 %s) (< %s %s))", oldM, newM, oldM), "recursive call decreases "+ct.Decreases.Text, pos)
		}
	}
	// frame
	pre := st.clone()
	eff := &effects{cells: map[*ssa.Alloc]bool{}, heaps: map[string]bool{}, globals: map[*ssa.Global]bool{}}
	r.contractEffects(ct, eff)
	delete(eff.heaps, "MAP") // map frames are exact at a call site (below)
	if !ct.AssignsSet && !ct.Trusted {
		// no frame given for a repo function: it may write anything reachable
		// (conservative); trusted dependency contracts without assigns are pure.
	}
	r.havocHeaps(st, eff)
	// "assigns map:<expr>": only the contents of that one map change (exact frame)
	for _, a := range ct.Assigns {
		if !strings.HasPrefix(a, "map:") {
			continue
		}
		ex, err := ParseSpec(strings.TrimPrefix(a, "map:"))
		if err != nil {
			r.unsupported("bad assigns clause %q", a)
		}
		mv := env.tr(ex)
		if mv.Type == nil {
			r.unsupported("assigns %s: map type unknown", a)
		}
		if _, isMap := mv.Type.Underlying().(*types.Map); !isMap {
			r.unsupported("assigns %s: not a map", a)
		}
		dom, val, _, _ := r.mapHeaps(mv.Type)
		for _, hn := range []string{dom, val} {
			h := r.heapGet(st, hn)
			nc := r.fresh("mapc", r.heapSort[hn])
			st.heaps[hn] = r.share(fmt.Sprintf("(store %s %s %s)", h, mv.Term, nc), "(Array Int "+r.heapSort[hn]+")")
		}
	}
	nn := r.fresh("nxt", "Int")
	r.assume("true", fmt.Sprintf("(>= %s %s)", nn, st.nxt))
	nxtBefore := st.nxt
	st.nxt = nn
	// results
	var out []Val
	for i := 0; i < sig.Results().Len(); i++ {
		v := r.symbolic("r_"+mangle(lastSeg(cname)), sig.Results().At(i).Type())
		r.refFact(st, v.Type, v.Term)
		out = append(out, v)
		if i < len(ct.ResultNames) {
			env.extra[ct.ResultNames[i]] = SVal{Term: v.Term, Sort: v.Sort, Type: v.Type}
		}
	}
	if strings.HasPrefix(ct.Key, "iface:") && len(args) > 0 && len(r.dynCalls) < 12 {
		dc := DynCall{Key: ct.Key, Recv: args[0].Term}
		for _, v := range out {
			dc.Results = append(dc.Results, v.Term)
			dc.Sorts = append(dc.Sorts, v.Sort)
		}
		r.dynCalls = append(r.dynCalls, dc)
	}
	for _, f := range ct.Fresh {
		if v, ok := env.extra[f]; ok {
			if strings.HasPrefix(v.Sort, "Slice_") {
				r.assume(reach, fmt.Sprintf("(own_%s %s)", strings.TrimPrefix(v.Sort, "Slice_"), v.Term))
			} else {
				r.assume(reach, fmt.Sprintf("(>= %s %s)", v.Term, nxtBefore))
			}
		}
	}
	env.st = st
	env.old = pre
	cguard := "true"
	if len(ct.Assuming) > 0 {
		penv := *env
		penv.st = pre
		var gs []string
		for _, a := range ct.Assuming {
			gs = append(gs, r.specBool(&penv, a.Expr, a.Text))
		}
		cguard = and(gs...)
	}
	for _, en := range ct.Ensures {
		r.assumeClause(env, and(reach, cguard), en.Expr, en.Text)
	}
	for _, en := range ct.Defines {
		r.assumeClause(env, reach, en.Expr, en.Text)
		r.assumed["determinism (result named by a spec function): "+ct.Key+": "+en.Text] = true
	}
	for _, u := range ct.Uses {
		r.force = append(r.force, u)
	}
	return out
}

func lastSeg(s string) string {
	if i := strings.LastIndexAny(s, "./"); i >= 0 {
		return s[i+1:]
	}
	return s
}

func (r *run) execBuiltin(fr *frame, st *State, b *ssa.Builtin, c *ssa.CallCommon, args []Val, reach string, instr ssa.Value) Val {
	switch b.Name() {
	case "len":
		a := args[0]
		switch {
		case a.Sort == "String":
			return Val{Term: fmt.Sprintf("(str.len %s)", a.Term), Sort: "Int", Type: types.Typ[types.Int]}
		case strings.HasPrefix(a.Sort, "Slice_"):
			return Val{Term: fmt.Sprintf("(len_%s %s)", strings.TrimPrefix(a.Sort, "Slice_"), a.Term), Sort: "Int", Type: types.Typ[types.Int]}
		}
		if _, isMap := c.Args[0].Type().Underlying().(*types.Map); isMap {
			v := r.symbolic("maplen", types.Typ[types.Int])
			r.assume("true", fmt.Sprintf("(<= 0 %s)", v.Term))
			return v
		}
		if at, ok := c.Args[0].Type().Underlying().(*types.Array); ok {
			return Val{Term: fmt.Sprint(at.Len()), Sort: "Int", Type: types.Typ[types.Int]}
		}
		r.unsupported("len of %s", c.Args[0].Type())
	case "cap":
		a := args[0]
		if strings.HasPrefix(a.Sort, "Slice_") {
			return Val{Term: fmt.Sprintf("(cap_%s %s)", strings.TrimPrefix(a.Sort, "Slice_"), a.Term), Sort: "Int", Type: types.Typ[types.Int]}
		}
		r.unsupported("cap of %s", c.Args[0].Type())
	case "append":
		return r.execAppend(fr, st, c, args, reach)
	case "min", "max":
		op := "<="
		if b.Name() == "max" {
			op = ">="
		}
		cur := args[0]
		for _, a := range args[1:] {
			cur = Val{Term: fmt.Sprintf("(ite (%s %s %s) %s %s)", op, cur.Term, a.Term, cur.Term, a.Term), Sort: cur.Sort, Type: cur.Type}
		}
		return cur
	case "ssa:wrapnilchk":
		return args[0]
	case "ssa:deferstack":
		return Val{Term: "0", Sort: "Int"}
	case "delete":
		r.unsupported("builtin delete")
	case "copy":
		r.unsupported("builtin copy")
	case "print", "println":
		return Val{}
	}
	r.unsupported("builtin %s", b.Name())
	return Val{}
}

// execAppend follows the language rule on the value-semantics slice model: the result holds
// the old elements followed by the new ones. Appending in place (len+n <= cap) into a
// backing array this activation does not own would write caller-visible memory: that is
// the frame.append obligation (DESIGN §8 C03).
func (r *run) execAppend(fr *frame, st *State, c *ssa.CallCommon, args []Val, reach string) Val {
	s, t := args[0], args[1]
	if s.Sort == "String" || t.Sort == "String" {
		r.unsupported("append of string to []byte")
	}
	m, sarr, slen, scap := r.sliceParts(s)
	_, tarr, tlen, _ := r.sliceParts(t)
	so := s.Sort
	es := r.eng.Sorts.slices[so]
	// statically known argument length (variadic packing creates a literal array slice)
	n, known := r.knownLen(t)
	inPlace := fmt.Sprintf("(<= (+ %s %s) %s)", slen, tlen, scap)
	// `assigns caller-arrays`: the contract declares that the function may write into backing
	// arrays visible to its caller (an in-place append onto a parameter); no obligation then
	declared := false
	if fr.root != nil && fr.root.contract != nil {
		for _, a := range fr.root.contract.Assigns {
			if a == "caller-arrays" {
				declared = true
			}
		}
	}
	if fr.root != nil && fr.root.contract != nil && fr.root.contract.AssignsSet && !declared {
		r.oblige(fr.name, "frame.append", reach, fmt.Sprintf("(or (own_%s %s) (= %s 0) (not %s))", m, s.Term, tlen, inPlace), "append must not write into a backing array visible to the caller: "+c.String(), c.Pos())
	}
	var narr string
	if known && n <= 4 {
		narr = sarr
		for i := 0; i < n; i++ {
			narr = fmt.Sprintf("(store %s (+ %s %d) (select %s %d))", narr, slen, i, tarr, i)
		}
	} else {
		a := r.fresh("app", "(Array Int "+es+")")
		r.emit(fmt.Sprintf("(assert (forall ((i!a Int)) (! (= (select %s i!a) (ite (< i!a %s) (select %s i!a) (select %s (- i!a %s)))) :pattern ((select %s i!a)))))", a, slen, sarr, tarr, slen, a))
		narr = a
	}
	ncap := r.fresh("cap", "Int")
	nlen := fmt.Sprintf("(+ %s %s)", slen, tlen)
	r.assume("true", fmt.Sprintf("(and (>= %s %s) (=> %s (= %s %s)))", ncap, nlen, inPlace, ncap, scap))
	res := fmt.Sprintf("(mk_%s %s %s %s (or (own_%s %s) (not %s)) (or (nn_%s %s) (> %s 0)))", so, narr, nlen, ncap, m, s.Term, inPlace, m, s.Term, tlen)
	return Val{Term: res, Sort: so, Type: c.Args[0].Type()}
}

func (r *run) knownLen(v Val) (int, bool) {
	// a slice literal built by the SSA builder: (mk_S arr N N ...)
	m := strings.TrimPrefix(v.Sort, "Slice_")
	pre := "(mk_Slice_" + m + " "
	if !strings.HasPrefix(v.Term, pre) {
		return 0, false
	}
	// find the len field: third top-level element
	parts := topLevelParts(v.Term[1 : len(v.Term)-1])
	if len(parts) < 3 {
		return 0, false
	}
	var n int
	if _, err := fmt.Sscanf(parts[2], "%d", &n); err != nil {
		return 0, false
	}
	return n, true
}

func topLevelParts(s string) []string {
	var out []string
	depth, start := 0, 0
	inStr := false
	for i := 0; i < len(s); i++ {
		c := s[i]
		if inStr {
			if c == '"' {
				inStr = false
			}
			continue
		}
		switch c {
		case '"':
			inStr = true
		case '(':
			depth++
		case ')':
			depth--
		case ' ':
			if depth == 0 {
				if i > start {
					out = append(out, s[start:i])
				}
				start = i + 1
			}
		}
	}
	if start < len(s) {
		out = append(out, s[start:])
	}
	return out
}

// tryInline inlines a callee; if the callee's body is outside the supported subset the call
// falls back to the default contract (total, pure, unconstrained) and says so.
func (r *run) tryInline(fr *frame, st *State, callee *ssa.Function, args, bindings []Val, reach string, ct *Contract) (res []Val, ok bool) {
	saved := st.clone()
	nitems, nobls := len(r.items), len(r.obls)
	depth := len(r.stack)
	savedCounters := map[string]int{}
	for k, v := range r.counters {
		savedCounters[k] = v
	}
	defer func() {
		if p := recover(); p != nil {
			ee, isExec := p.(execError)
			if !isExec {
				panic(p)
			}
			*st = *saved
			// keep declarations emitted so far (harmless), drop obligations of the failed attempt
			kept := r.items[:nitems]
			for _, it := range r.items[nitems:] {
				if it.kind == 0 && strings.HasPrefix(it.text, "(declare-") {
					kept = append(kept, it)
				}
			}
			r.items = kept
			r.obls = r.obls[:nobls]
			r.counters = savedCounters
			r.stack = r.stack[:depth]
			r.assumed["default (total, pure, unconstrained result): "+callee.String()+" [body outside the supported subset: "+ee.msg+"]"] = true
			res, ok = nil, false
		}
	}()
	return r.inline(fr, st, callee, args, bindings, reach, ct), true
}

// dispatchCandidates: a function value known (by a data-structure invariant stated as a
// field contract) to be one of a finite set of repo functions: case split, each case against
// that function's own contract; that the value is one of them is an obligation.
func (r *run) dispatchCandidates(fr *frame, st *State, ct *Contract, fv Val, args []Val, reach string, pos token.Pos, sig *types.Signature) []Val {
	pkgPath := ct.Key[strings.Index(ct.Key, ":")+1:]
	for i := 0; i < 2; i++ {
		if j := strings.LastIndex(pkgPath, "."); j > 0 {
			pkgPath = pkgPath[:j]
		}
	}
	type caseRes struct {
		guard string
		res   []Val
		st    *State
	}
	var cases []caseRes
	var guards []string
	for _, cn := range ct.Candidates {
		fn := r.eng.Funcs[pkgPath+"."+cn]
		if fn == nil {
			r.unsupported("candidate %s of %s not found", cn, ct.Key)
		}
		g := fmt.Sprintf("(= %s %s)", fv.Term, r.fnTerm(fn))
		guards = append(guards, g)
		cst := st.clone()
		res := r.callStatic(fr, cst, fn, args, nil, and(reach, g), pos, sig)
		cases = append(cases, caseRes{g, res, cst})
	}
	r.oblige(fr.name, "func-value-known", reach, or(guards...), "function value is one of: "+strings.Join(ct.Candidates, ", "), pos)
	var edges []inEdge
	for _, cs := range cases {
		edges = append(edges, inEdge{cond: and(reach, cs.guard), st: cs.st})
	}
	ms, _ := r.mergeStates(edges)
	*st = *ms.clone()
	var out []Val
	for i := 0; i < sig.Results().Len(); i++ {
		var col []Val
		for _, cs := range cases {
			col = append(col, cs.res[i])
		}
		out = append(out, r.mergeVals(edges, col, "cand"))
	}
	return out
}

// reflectDispatch partially evaluates the reflection in system/cmp.go
// (reflect.TypeOf(lhs).MethodByName(name), Type.In, ConvertibleTo, Func.Call) per dynamic
// type of lhs, using the method sets and the convertibility relation of go/types - the same
// the compiler uses. The reflective call becomes a direct call of the named method. If a
// method is added, removed or re-typed, the case split changes with it (DESIGN §3.2).
//
//   callTryEqual(lhs, rhs)        -> (result, has, found bool)
//   callBinaryComparator(n,l,r)   -> (result any, found bool)
func (r *run) reflectDispatch(fr *frame, st *State, name string, lhs, rhs Val, reach string, pos token.Pos, tryEq bool) []Val {
	type caseRes struct {
		guard string
		res   []Val
		st    *State
	}
	boolT := types.Typ[types.Bool]
	bv := func(s string) Val { return Val{Term: s, Sort: "Bool", Type: boolT} }
	var cases []caseRes
	var guards []string
	r.oblige(fr.name, "nil-deref", reach, fmt.Sprintf("(not ((_ is nil_any) %s))", lhs.Term), "reflect.TypeOf(lhs).MethodByName on a nil interface", pos)
	var static *types.Interface
	if lhs.Type != nil {
		if it, ok := lhs.Type.Underlying().(*types.Interface); ok && it.NumMethods() > 0 {
			static = it
		}
	}
	for _, t := range r.eng.Sorts.universe {
		if static != nil && !types.Implements(t, static) {
			continue // the static type of lhs rules this dynamic type out
		}
		ms := r.eng.Prog.MethodSets.MethodSet(t)
		var sel *types.Selection
		for i := 0; i < ms.Len(); i++ {
			if ms.At(i).Obj().Name() == name && ms.At(i).Obj().Exported() {
				sel = ms.At(i)
			}
		}
		if sel == nil {
			continue
		}
		m := r.eng.Prog.MethodValue(sel)
		if m == nil || m.Signature.Params().Len() != 1 {
			continue
		}
		if pk := FnPkg(m); pk == nil || !inRepo(pk.Pkg) {
			continue
		}
		g := r.eng.Sorts.IsType(t, lhs.Term)
		guards = append(guards, g)
		cst := st.clone()
		P := m.Signature.Params().At(0).Type()
		recv := Val{Term: r.eng.Sorts.Unbox(t, lhs.Term), Sort: r.eng.Sorts.SortOf(t), Type: t}
		_, pIsIface := P.Underlying().(*types.Interface)
		var out []Val
		if !pIsIface {
			// concrete parameter type P: the guard "arg1.ConvertibleTo(reflect.TypeOf(rhs))" is
			// decided per dynamic type of rhs with go/types' convertibility relation
			var convs []string
			for _, u := range r.eng.Sorts.universe {
				if types.ConvertibleTo(P, u) {
					convs = append(convs, r.eng.Sorts.IsType(u, rhs.Term))
				}
			}
			conv := or(convs...)
			// not convertible: the method is called reflectively; reflect panics unless the
			// argument is assignable to P (here: has exactly that type)
			isP := r.eng.Sorts.IsType(P, rhs.Term)
			r.oblige(fr.name, "reflect-call", and(reach, g, not(conv)), isP, "reflect.Value.Call: argument assignable to the parameter type of "+shortName(t)+"."+name, pos)
			arg := Val{Term: r.eng.Sorts.Unbox(P, rhs.Term), Sort: r.eng.Sorts.SortOf(P), Type: P}
			res := r.callStatic(fr, cst, m, []Val{recv, arg}, nil, and(reach, g, not(conv)), pos, m.Signature)
			if tryEq {
				if len(res) != 2 {
					r.unsupported("TryEqual of %s does not return (bool, bool)", shortName(t))
				}
				out = []Val{{Term: fmt.Sprintf("(ite %s false %s)", conv, res[0].Term), Sort: "Bool", Type: boolT}, {Term: fmt.Sprintf("(ite %s false %s)", conv, res[1].Term), Sort: "Bool", Type: boolT}, bv("true")}
			} else {
				if len(res) < 1 || res[0].Sort != "Bool" {
					r.unsupported("%s of %s does not return bool first", name, shortName(t))
				}
				boxed, _ := r.eng.Sorts.Box(boolT, res[0].Term)
				out = []Val{{Term: fmt.Sprintf("(ite %s nil_any %s)", conv, boxed), Sort: "Any"}, bv("true")}
			}
			cases = append(cases, caseRes{g, out, cst})
			continue
		}
		// P is an interface: reflect's ConvertibleTo(P, concrete type) is false, the method is called
		res := r.callStatic(fr, cst, m, []Val{recv, rhs}, nil, and(reach, g), pos, m.Signature)
		if tryEq {
			if len(res) != 2 {
				r.unsupported("TryEqual of %s does not return (bool, bool)", shortName(t))
			}
			out = []Val{res[0], res[1], bv("true")}
		} else {
			if len(res) < 1 || res[0].Sort != "Bool" {
				r.unsupported("%s of %s does not return bool first", name, shortName(t))
			}
			boxed, _ := r.eng.Sorts.Box(boolT, res[0].Term)
			out = []Val{{Term: boxed, Sort: "Any"}, bv("true")}
		}
		cases = append(cases, caseRes{g, out, cst})
	}
	// no such method: found == false
	other := not(or(guards...))
	ost := st.clone()
	if tryEq {
		cases = append(cases, caseRes{other, []Val{bv("false"), bv("false"), bv("false")}, ost})
	} else {
		cases = append(cases, caseRes{other, []Val{{Term: "nil_any", Sort: "Any"}, bv("false")}, ost})
	}
	var edges []inEdge
	for _, cs := range cases {
		edges = append(edges, inEdge{cond: and(reach, cs.guard), st: cs.st})
	}
	ms, _ := r.mergeStates(edges)
	*st = *ms.clone()
	var outv []Val
	for i := range cases[0].res {
		var col []Val
		for _, cs := range cases {
			col = append(col, cs.res[i])
		}
		outv = append(outv, r.mergeVals(edges, col, "refl"))
	}
	r.assumed["reflection in system/cmp.go partially evaluated per dynamic type with go/types method sets (reflect.Value.Call = direct call)"] = true
	return outv
}

// sprintf models fmt.Sprintf for the formats "%v", "%s", "%d" with one operand that is a
// string or an integer (boxed in the variadic []any): the operand itself / its decimal
// rendering. Every other use is an unconstrained string.
func (r *run) sprintf(args []Val) (Val, bool) {
	if len(args) != 2 || !strings.HasPrefix(args[0].Term, "\"") {
		return Val{}, false
	}
	format, ok := smtUnescape(args[0].Term)
	if !ok {
		return Val{}, false
	}
	if format != "%v" && format != "%s" && format != "%d" {
		return r.sprintfUF(format, args[1])
	}
	n, known := r.knownLen(args[1])
	if !known || n != 1 {
		return Val{}, false
	}
	_ = format
	m := strings.TrimPrefix(args[1].Sort, "Slice_")
	el := fmt.Sprintf("(select (arr_%s %s) 0)", m, args[1].Term)
	var strCases, intCases []string
	for _, t := range r.eng.Sorts.universe {
		switch r.eng.Sorts.SortOf(t) {
		case "String":
			strCases = append(strCases, fmt.Sprintf("(ite %s %s", r.eng.Sorts.IsType(t, el), r.eng.Sorts.Unbox(t, el)))
		case "Int":
			if _, isB := t.Underlying().(*types.Basic); isB && format != "%s" {
				intCases = append(intCases, fmt.Sprintf("(ite %s (int_to_str %s)", r.eng.Sorts.IsType(t, el), r.eng.Sorts.Unbox(t, el)))
			}
		}
	}
	other := r.fresh("sprintf", "String")
	term := other
	all := append(strCases, intCases...)
	for i := len(all) - 1; i >= 0; i-- {
		term = all[i] + " " + term + ")"
	}
	r.assumed["assumed contract: fmt.Sprintf(\"%v\"|\"%s\"|\"%d\", x) of a string is the string, of an integer its decimal rendering"] = true
	return Val{Term: term, Sort: "String", Type: types.Typ[types.String]}, true
}

// sprintfUF: fmt.Sprintf with a constant format whose operands are all statically integers or
// strings is a deterministic function of the operand values: sprintf_<sig>(format, operands).
func (r *run) sprintfUF(format string, pack Val) (Val, bool) {
	n, known := r.knownLen(pack)
	if !known || n < 1 || n > 6 {
		return Val{}, false
	}
	m := strings.TrimPrefix(pack.Sort, "Slice_")
	// static operand types: the variadic pack is a slice of a fresh [n]any whose elements the
	// caller stored as MakeInterface values
	ots := r.packTypes(n)
	if ots == nil {
		return Val{}, false
	}
	if t, ok := r.sprintfConcat(format, pack, m, ots); ok {
		return Val{Term: t, Sort: "String", Type: types.Typ[types.String]}, true
	}
	sig := ""
	var ops []string
	for i := 0; i < n; i++ {
		ct := ots[i]
		el := fmt.Sprintf("(select (arr_%s %s) %d)", m, pack.Term, i)
		switch r.eng.Sorts.SortOf(ct) {
		case "Int":
			if _, isB := ct.Underlying().(*types.Basic); !isB {
				return Val{}, false
			}
			sig += "I"
		case "String":
			sig += "S"
		default:
			return Val{}, false
		}
		ops = append(ops, r.eng.Sorts.Unbox(ct, el))
	}
	_ = m
	r.assumed["assumed contract: fmt.Sprintf with a constant format and integer/string operands is a deterministic function of its operands"] = true
	return Val{Term: fmt.Sprintf("(sprintf_%s %s %s)", sig, smtString(format), strings.Join(ops, " ")), Sort: "String", Type: types.Typ[types.String]}, true
}

// packTypes returns the static types of the n operands packed into the variadic argument of
// the call being executed, or nil when they cannot be read off the SSA.
func (r *run) packTypes(n int) []types.Type {
	c := r.curCall
	if c == nil || len(c.Args) == 0 {
		return nil
	}
	sl, ok := c.Args[len(c.Args)-1].(*ssa.Slice)
	if !ok {
		return nil
	}
	al, ok := sl.X.(*ssa.Alloc)
	if !ok || al.Referrers() == nil {
		return nil
	}
	out := make([]types.Type, n)
	for _, ref := range *al.Referrers() {
		ia, ok := ref.(*ssa.IndexAddr)
		if !ok || ia.Referrers() == nil {
			continue
		}
		k, ok := ia.Index.(*ssa.Const)
		if !ok || k.Int64() < 0 || int(k.Int64()) >= n {
			return nil
		}
		for _, r2 := range *ia.Referrers() {
			if stI, ok := r2.(*ssa.Store); ok && stI.Addr == ia {
				mi, ok := stI.Val.(*ssa.MakeInterface)
				if !ok {
					return nil
				}
				out[k.Int64()] = mi.X.Type()
			}
		}
	}
	for _, t := range out {
		if t == nil {
			return nil
		}
	}
	return out
}

// frameCall: a function that claims a frame may only call callees whose frames lie inside
// it: the callee's assigns clause must name objects this activation allocated, or locations
// the caller's own assigns clause names (DESIGN §8 C03).
func (r *run) frameCall(fr *frame, st *State, ct *Contract, env *specEnv, cname, reach string, pos token.Pos) {
	top := fr.root
	if top == nil {
		top = fr
	}
	if top.contract == nil || !top.contract.AssignsSet || len(ct.Assigns) == 0 {
		return
	}
	star := false
	for _, a := range top.contract.Assigns {
		if a == "*" {
			star = true
		}
	}
	for _, a := range ct.Assigns {
		cond := "false"
		if star && !strings.HasPrefix(a, "ghost:") {
			continue
		}
		switch {
		case a == "*":
		case strings.HasPrefix(a, "ghost:"):
			// ghost state: inside the caller's frame only if the caller names it too
			for _, ra := range top.contract.Assigns {
				if ra == a {
					cond = "true"
				}
			}
		case strings.HasPrefix(a, "map:"):
			ex, err := ParseSpec(strings.TrimPrefix(a, "map:"))
			if err != nil {
				break
			}
			mv := env.tr(ex)
			cond = fmt.Sprintf("(>= %s %s)", mv.Term, r.nxt0)
			for _, ra := range top.contract.Assigns {
				if strings.HasPrefix(ra, "map:") {
					renv := r.newEnv(top, r.entry)
					renv.ensMode = true
					if e2, err := ParseSpec(strings.TrimPrefix(ra, "map:")); err == nil {
						cond = or(cond, fmt.Sprintf("(= %s %s)", mv.Term, r.specTerm(renv, e2).Term))
					}
				}
			}
		default:
			parts := strings.Split(a, ".")
			if len(parts) != 2 {
				break
			}
			pv, ok := env.extra[parts[0]]
			if !ok {
				break
			}
			cond = fmt.Sprintf("(>= %s %s)", pv.Term, r.nxt0)
			for _, ra := range top.contract.Assigns {
				rp := strings.Split(ra, ".")
				if len(rp) == 2 && rp[1] == parts[1] {
					if tv, ok := top.params[rp[0]]; ok {
						cond = or(cond, fmt.Sprintf("(= %s %s)", pv.Term, tv.Term))
					}
				}
			}
		}
		r.oblige(fr.name, "frame.call", reach, cond, fmt.Sprintf("call to %s, which assigns %s: outside this activation's fresh objects and the assigns clause", cname, a), pos)
	}
}

// dispatchAlts: a call through a function value known to be one of several closures, each
// selected under a path condition: case split over the alternatives (the conditions cover
// the reach of the merge that produced the value).
func (r *run) dispatchAlts(fr *frame, st *State, fv Val, args []Val, reach string, pos token.Pos, sig *types.Signature) []Val {
	type caseRes struct {
		guard string
		res   []Val
		st    *State
	}
	var cases []caseRes
	var guards []string
	for _, a := range fv.FnAlts {
		guards = append(guards, a.Guard)
		cst := st.clone()
		res := r.callStatic(fr, cst, a.Fn.Fn, args, a.Fn.Bindings, and(reach, a.Guard), pos, sig)
		cases = append(cases, caseRes{a.Guard, res, cst})
	}
	r.oblige(fr.name, "func-value-known", reach, or(guards...), "function value is one of the closures assigned to it", pos)
	var edges []inEdge
	for _, cs := range cases {
		edges = append(edges, inEdge{cond: and(reach, cs.guard), st: cs.st})
	}
	ms, _ := r.mergeStates(edges)
	*st = *ms.clone()
	var out []Val
	for i := 0; i < sig.Results().Len(); i++ {
		var col []Val
		for _, cs := range cases {
			col = append(col, cs.res[i])
		}
		out = append(out, r.mergeVals(edges, col, "alt"))
	}
	return out
}

// sprintfConcat: a format made only of literal text and plain %v / %s / %d verbs, whose
// operands are strings (of types without String/Error/Format methods) or integers, is exactly
// the concatenation of the literal pieces and the operands (integers in decimal).
func (r *run) sprintfConcat(format string, pack Val, m string, ots []types.Type) (string, bool) {
	var pieces []string
	arg := 0
	lit := ""
	for i := 0; i < len(format); i++ {
		c := format[i]
		if c != '%' {
			lit += string(c)
			continue
		}
		if i+1 >= len(format) {
			return "", false
		}
		v := format[i+1]
		i++
		if v == '%' {
			lit += "%"
			continue
		}
		if v != 'v' && v != 's' && v != 'd' || arg >= len(ots) {
			return "", false
		}
		t := ots[arg]
		if hasFmtMethod(t) {
			return "", false
		}
		el := fmt.Sprintf("(select (arr_%s %s) %d)", m, pack.Term, arg)
		var term string
		switch r.eng.Sorts.SortOf(t) {
		case "String":
			if v == 'd' {
				return "", false
			}
			term = r.eng.Sorts.Unbox(t, el)
		case "Int":
			if _, isB := t.Underlying().(*types.Basic); !isB || v == 's' {
				return "", false
			}
			term = fmt.Sprintf("(int_to_str %s)", r.eng.Sorts.Unbox(t, el))
		default:
			return "", false
		}
		if lit != "" {
			pieces = append(pieces, smtString(lit))
			lit = ""
		}
		pieces = append(pieces, term)
		arg++
	}
	if arg != len(ots) {
		return "", false
	}
	if lit != "" {
		pieces = append(pieces, smtString(lit))
	}
	if len(pieces) == 0 {
		return smtString(""), true
	}
	if len(pieces) == 1 {
		return pieces[0], true
	}
	r.assumed["assumed contract: fmt.Sprintf of literal text and %v/%s/%d verbs over strings and integers is the concatenation of the pieces"] = true
	return "(str.++ " + strings.Join(pieces, " ") + ")", true
}

func hasFmtMethod(t types.Type) bool {
	for _, tt := range []types.Type{t, types.NewPointer(t)} {
		ms := types.NewMethodSet(tt)
		for _, n := range []string{"String", "Error", "Format", "GoString"} {
			if ms.Lookup(nil, n) != nil {
				return true
			}
		}
	}
	return false
}

// firstFieldRoot: for a location that is field 0 of field 0 ... of the struct a heap pointer
// points to, the term of that pointer ("" otherwise).
func firstFieldRoot(l *Loc) string {
	for l != nil {
		if l.Field != 0 {
			return ""
		}
		switch l.Kind {
		case LHeapField:
			return l.Ptr
		case LField:
			l = l.Base
		default:
			return ""
		}
	}
	return ""
}
