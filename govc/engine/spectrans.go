package engine

import (
	"fmt"
	"go/constant"
	"go/types"
	"strings"

	"golang.org/x/tools/go/ssa"
)

type SVal struct {
	Term string
	Sort string
	Type types.Type
}

type specEnv struct {
	r       *run
	fr      *frame
	st      *State
	old     *State
	extra   map[string]SVal
	ensMode bool // parameters denote entry values; locals are not in scope
	pkg     *types.Package
	inOld   bool
	bound   map[string]SVal
}

func (r *run) newEnv(fr *frame, st *State) *specEnv {
	e := &specEnv{r: r, fr: fr, st: st, old: r.entry, extra: map[string]SVal{}, bound: map[string]SVal{}}
	if fr != nil {
		for k, v := range fr.lets {
			e.extra[k] = v
		}
	}
	if fr != nil && fr.fn != nil {
		if fr.fn.Pkg != nil {
			e.pkg = fr.fn.Pkg.Pkg
		} else if fr.fn.Origin() != nil && fr.fn.Origin().Pkg != nil {
			e.pkg = fr.fn.Origin().Pkg.Pkg
		}
	}
	return e
}

func (e *specEnv) fail(f string, a ...any) {
	panic(execError{"spec: " + fmt.Sprintf(f, a...)})
}

func (r *run) specBool(env *specEnv, x *SExpr, text string) string {
	v := env.tr(x)
	if v.Sort != "Bool" {
		env.fail("clause %q is not boolean (sort %s)", text, v.Sort)
	}
	return v.Term
}

func (r *run) specTerm(env *specEnv, x *SExpr) SVal { return env.tr(x) }

func (e *specEnv) state() *State {
	if e.inOld && e.old != nil {
		return e.old
	}
	return e.st
}

func (e *specEnv) lookup(name string) (SVal, bool) {
	if v, ok := e.bound[name]; ok {
		return v, true
	}
	if v, ok := e.extra[name]; ok {
		return v, true
	}
	fr := e.fr
	if fr != nil {
		// parameters
		if pv, ok := fr.params[name]; ok {
			if e.ensMode || e.inOld {
				return SVal{pv.Term, pv.Sort, pv.Type}, true
			}
			// current value of the parameter's cell, if it has one
			for a, v := range e.state().cells {
				if a.Comment == name && a.Parent() == fr.fn && isParamCell(a, fr.fn) {
					return SVal{v.Term, v.Sort, v.Type}, true
				}
			}
			return SVal{pv.Term, pv.Sort, pv.Type}, true
		}
		// captured variables of a closure: read through the capture pointer
		for _, fv := range fr.fn.FreeVars {
			if fv.Name() != name {
				continue
			}
			pv, ok := fr.vals[fv]
			if !ok {
				break
			}
			if _, isPtr := fv.Type().Underlying().(*types.Pointer); isPtr {
				l := e.r.asLoc(fr, e.state(), pv, fv, "false", fv.Pos())
				v := e.r.load(e.state(), l, "false")
				return SVal{v.Term, v.Sort, v.Type}, true
			}
			return SVal{pv.Term, pv.Sort, pv.Type}, true
		}
		if !e.ensMode {
			want, ord := name, 0
			if i := strings.Index(name, "#"); i > 0 {
				want = name[:i]
				fmt.Sscanf(name[i+1:], "%d", &ord)
			}
			var cands []*ssa.Alloc
			for a := range e.state().cells {
				if a.Comment == want && a.Parent() == fr.fn {
					cands = append(cands, a)
				}
			}
			if len(cands) == 0 {
				// the local may have been renamed since the contract was written
				for _, nn := range e.r.eng.renamedLocal(fr.fn, want) {
					for a := range e.state().cells {
						if a.Comment == nn && a.Parent() == fr.fn {
							cands = append(cands, a)
						}
					}
				}
			}
			if len(cands) > 0 {
				// deterministic: order by position
				for i := range cands {
					for j := i + 1; j < len(cands); j++ {
						if cands[j].Pos() < cands[i].Pos() {
							cands[i], cands[j] = cands[j], cands[i]
						}
					}
				}
				pick := cands[len(cands)-1]
				if ord > 0 && ord <= len(cands) {
					pick = cands[ord-1]
				}
				v := e.state().cells[pick]
				if v.Loc == nil && v.Tup == nil {
					return SVal{v.Term, v.Sort, v.Type}, true
				}
			}
		}
	}
	// package scope: constants and globals
	if e.pkg != nil {
		if o := e.pkg.Scope().Lookup(name); o != nil {
			return e.objVal(o)
		}
	}
	return SVal{}, false
}

func isParamCell(a *ssa.Alloc, fn *ssa.Function) bool {
	for _, p := range fn.Params {
		if p.Name() == a.Comment {
			return true
		}
	}
	return false
}

func (e *specEnv) objVal(o types.Object) (SVal, bool) {
	switch x := o.(type) {
	case *types.Const:
		so := e.r.eng.Sorts.SortOf(x.Type())
		switch x.Val().Kind() {
		case constant.Int:
			if so == "Real" {
				return SVal{smtReal(x.Val()), "Real", x.Type()}, true
			}
			return SVal{smtInt(x.Val().ExactString()), "Int", x.Type()}, true
		case constant.String:
			return SVal{smtString(constant.StringVal(x.Val())), "String", x.Type()}, true
		case constant.Bool:
			return SVal{fmt.Sprint(constant.BoolVal(x.Val())), "Bool", x.Type()}, true
		case constant.Float:
			return SVal{smtReal(x.Val()), "Real", x.Type()}, true
		}
	case *types.Func:
		if sp := e.r.eng.SSAPkgs[x.Pkg().Path()]; sp != nil {
			if f := sp.Func(x.Name()); f != nil {
				return SVal{Term: e.r.fnTerm(f), Sort: "Int", Type: x.Type()}, true
			}
		}
	case *types.Var:
		if sp := e.r.eng.SSAPkgs[x.Pkg().Path()]; sp != nil {
			if g, ok := sp.Members[x.Name()].(*ssa.Global); ok {
				v := e.r.load(e.state(), &Loc{Kind: LGlobal, Global: g}, "true")
				return SVal{v.Term, v.Sort, v.Type}, true
			}
		}
	}
	return SVal{}, false
}

func (e *specEnv) sortOfName(n string) (string, types.Type) {
	switch n {
	case "int", "int32", "int64":
		return "Int", types.Typ[types.Int]
	case "bool":
		return "Bool", types.Typ[types.Bool]
	case "string":
		return "String", types.Typ[types.String]
	case "real":
		return "Real", nil
	case "any":
		return "Any", nil
	case "err":
		return "Err", nil
	}
	if t := e.resolveType(n); t != nil {
		return e.r.eng.Sorts.SortOf(t), t
	}
	return n, nil // raw SMT sort name
}

func (e *specEnv) resolveType(n string) types.Type {
	if strings.HasPrefix(n, "[]") {
		if el := e.resolveType(n[2:]); el != nil {
			return types.NewSlice(el)
		}
		return nil
	}
	ptr := strings.HasPrefix(n, "*")
	base := strings.TrimPrefix(n, "*")
	var t types.Type
	if !strings.Contains(base, ".") && e.pkg != nil {
		if o := e.pkg.Scope().Lookup(base); o != nil {
			if tn, ok := o.(*types.TypeName); ok {
				t = tn.Type()
			}
		}
	}
	if t == nil {
		t = e.r.eng.LookupType(base)
	}
	if t == nil {
		return nil
	}
	if ptr {
		return types.NewPointer(t)
	}
	return t
}

func (e *specEnv) tr(x *SExpr) SVal {
	switch x.Op {
	case "int":
		return SVal{Term: x.Val, Sort: "Int"}
	case "real":
		return SVal{Term: x.Val, Sort: "Real"}
	case "str":
		return SVal{Term: smtString(x.Val), Sort: "String"}
	case "bool":
		return SVal{Term: x.Val, Sort: "Bool"}
	case "nil":
		return SVal{Term: "nil", Sort: "NIL"}
	case "id":
		if v, ok := e.lookup(x.Val); ok {
			return v
		}
		// prelude constant?
		if d, ok := e.r.eng.Prelude.Defs[x.Val]; ok && len(d.ArgSorts) == 0 {
			return SVal{Term: x.Val, Sort: d.ResSort}
		}
		e.fail("unknown identifier %q", x.Val)
	case "old":
		saved := e.inOld
		e.inOld = true
		v := e.tr(x.Args[0])
		e.inOld = saved
		return v
	case "sel":
		// qualified identifier pkg.Name ?
		if x.Args[0].Op == "id" {
			if _, isVar := e.lookup(x.Args[0].Val); !isVar {
				if v, ok := e.qualified(x.Args[0].Val, x.Val); ok {
					return v
				}
			}
		}
		b := e.tr(x.Args[0])
		return e.field(b, x.Val)
	case "idx":
		b := e.tr(x.Args[0])
		i := e.tr(x.Args[1])
		switch {
		case strings.HasPrefix(b.Sort, "Slice_"):
			m := strings.TrimPrefix(b.Sort, "Slice_")
			var et types.Type
			if b.Type != nil {
				if s, ok := b.Type.Underlying().(*types.Slice); ok {
					et = s.Elem()
				}
			}
			return SVal{Term: fmt.Sprintf("(select (arr_%s %s) %s)", m, b.Term, i.Term), Sort: e.r.eng.Sorts.slices[b.Sort], Type: et}
		case b.Sort == "String":
			return SVal{Term: fmt.Sprintf("(str.to_code (str.at %s %s))", b.Term, i.Term), Sort: "Int"}
		case strings.HasPrefix(b.Sort, "(Array "):
			parts := strings.SplitN(strings.TrimSuffix(strings.TrimPrefix(b.Sort, "(Array "), ")"), " ", 2)
			return SVal{Term: fmt.Sprintf("(select %s %s)", b.Term, i.Term), Sort: parts[1]}
		case b.Type != nil:
			if _, isMap := b.Type.Underlying().(*types.Map); isMap {
				_, val, _, vt := e.r.mapHeaps(b.Type)
				hv := e.r.heapGet(e.state(), val)
				return SVal{Term: fmt.Sprintf("(select (select %s %s) %s)", hv, b.Term, i.Term), Sort: e.r.eng.Sorts.SortOf(vt), Type: vt}
			}
		}
		e.fail("cannot index sort %s", b.Sort)
	case "slice":
		b := e.tr(x.Args[0])
		lo := "0"
		if x.Args[1] != nil {
			lo = e.tr(x.Args[1]).Term
		}
		if b.Sort == "String" {
			hi := fmt.Sprintf("(str.len %s)", b.Term)
			if x.Args[2] != nil {
				hi = e.tr(x.Args[2]).Term
			}
			return SVal{Term: fmt.Sprintf("(str.substr %s %s (- %s %s))", b.Term, lo, hi, lo), Sort: "String"}
		}
		e.fail("slice expression on sort %s", b.Sort)
	case "unbox":
		b := e.tr(x.Args[0])
		t := e.resolveType(x.Val)
		if t == nil {
			e.fail("unknown type %q", x.Val)
		}
		return SVal{Term: e.r.eng.Sorts.Unbox(t, b.Term), Sort: e.r.eng.Sorts.SortOf(t), Type: t}
	case "un":
		a := e.tr(x.Args[0])
		if x.Val == "!" {
			return SVal{Term: not(a.Term), Sort: "Bool"}
		}
		return SVal{Term: fmt.Sprintf("(- %s)", a.Term), Sort: a.Sort}
	case "bin":
		return e.bin(x)
	case "forall", "exists":
		saved := map[string]SVal{}
		var bs []string
		for _, b := range x.Binders {
			so, t := e.sortOfName(b.Type)
			if old, ok := e.bound[b.Name]; ok {
				saved[b.Name] = old
			}
			e.bound[b.Name] = SVal{Term: b.Name + "!q", Sort: so, Type: t}
			bs = append(bs, fmt.Sprintf("(%s!q %s)", b.Name, so))
		}
		body := e.tr(x.Args[0])
		for _, b := range x.Binders {
			delete(e.bound, b.Name)
			if old, ok := saved[b.Name]; ok {
				e.bound[b.Name] = old
			}
		}
		return SVal{Term: fmt.Sprintf("(%s (%s) %s)", x.Op, strings.Join(bs, " "), body.Term), Sort: "Bool"}
	case "call":
		return e.call(x)
	}
	e.fail("unsupported spec node %s", x.Op)
	return SVal{}
}

func (e *specEnv) qualified(pkgName, name string) (SVal, bool) {
	for path, sp := range e.r.eng.SSAPkgs {
		_ = path
		if sp.Pkg.Name() != pkgName && pkgAliases[pkgName] != sp.Pkg.Name() && pkgAliases[pkgName] != path {
			continue
		}
		if o := sp.Pkg.Scope().Lookup(name); o != nil {
			if v, ok := e.objVal(o); ok {
				return v, true
			}
		}
	}
	return SVal{}, false
}

func (e *specEnv) field(b SVal, name string) SVal {
	if si := e.r.eng.Sorts.StructInfo(b.Sort); si != nil {
		for i := 0; i < si.gotype.NumFields(); i++ {
			if si.gotype.Field(i).Name() == name {
				return SVal{Term: fmt.Sprintf("(%s %s)", si.fields[i], b.Term), Sort: si.fsorts[i], Type: si.gotype.Field(i).Type()}
			}
		}
		e.fail("no field %s in %s", name, b.Sort)
	}
	if b.Type != nil {
		if pt, ok := b.Type.Underlying().(*types.Pointer); ok {
			if su, ok := pt.Elem().Underlying().(*types.Struct); ok {
				for i := 0; i < su.NumFields(); i++ {
					if su.Field(i).Name() == name {
						hn, fs, ft := e.r.heapName(pt.Elem(), i)
						h := e.r.heapGet(e.state(), hn)
						return SVal{Term: fmt.Sprintf("(select %s %s)", h, b.Term), Sort: fs, Type: ft}
					}
				}
			}
		}
	}
	e.fail("cannot select .%s on sort %s", name, b.Sort)
	return SVal{}
}

func (e *specEnv) coerceNil(a, b SVal) (SVal, SVal) {
	fix := func(n SVal, other SVal) SVal {
		if n.Sort != "NIL" {
			return n
		}
		switch {
		case other.Sort == "Any":
			return SVal{Term: "nil_any", Sort: "Any"}
		case other.Sort == "Err" || other.Sort == "Int":
			return SVal{Term: "0", Sort: other.Sort}
		}
		e.fail("nil compared with sort %s", other.Sort)
		return n
	}
	return fix(a, b), fix(b, a)
}

func (e *specEnv) bin(x *SExpr) SVal {
	a := e.tr(x.Args[0])
	b := e.tr(x.Args[1])
	op := x.Val
	// numeric coercion Int literal <-> Real
	if a.Sort == "Real" && b.Sort == "Int" {
		b = SVal{Term: fmt.Sprintf("(to_real %s)", b.Term), Sort: "Real"}
	}
	if b.Sort == "Real" && a.Sort == "Int" {
		a = SVal{Term: fmt.Sprintf("(to_real %s)", a.Term), Sort: "Real"}
	}
	if a.Sort == "Err" && b.Sort == "Int" {
		b.Sort = "Err"
	}
	if b.Sort == "Err" && a.Sort == "Int" {
		a.Sort = "Err"
	}
	switch op {
	case "==>":
		return SVal{Term: fmt.Sprintf("(=> %s %s)", a.Term, b.Term), Sort: "Bool"}
	case "<==>":
		return SVal{Term: fmt.Sprintf("(= %s %s)", a.Term, b.Term), Sort: "Bool"}
	case "&&":
		return SVal{Term: and(a.Term, b.Term), Sort: "Bool"}
	case "||":
		return SVal{Term: or(a.Term, b.Term), Sort: "Bool"}
	case "==", "!=":
		a, b = e.coerceNil(a, b)
		if a.Sort != b.Sort {
			e.fail("== between sorts %s and %s", a.Sort, b.Sort)
		}
		var t string
		if strings.HasPrefix(a.Sort, "Slice_") && (x.Args[0].Op == "nil" || x.Args[1].Op == "nil") {
			e.fail("compare slices with nil via nn()")
		}
		t = fmt.Sprintf("(= %s %s)", a.Term, b.Term)
		if op == "!=" {
			t = not(t)
		}
		return SVal{Term: t, Sort: "Bool"}
	case "<", "<=", ">", ">=":
		if a.Sort == "String" {
			switch op {
			case "<":
				return SVal{Term: fmt.Sprintf("(str.< %s %s)", a.Term, b.Term), Sort: "Bool"}
			case "<=":
				return SVal{Term: fmt.Sprintf("(str.<= %s %s)", a.Term, b.Term), Sort: "Bool"}
			case ">":
				return SVal{Term: fmt.Sprintf("(str.< %s %s)", b.Term, a.Term), Sort: "Bool"}
			default:
				return SVal{Term: fmt.Sprintf("(str.<= %s %s)", b.Term, a.Term), Sort: "Bool"}
			}
		}
		return SVal{Term: fmt.Sprintf("(%s %s %s)", op, a.Term, b.Term), Sort: "Bool"}
	case "+":
		if a.Sort == "String" {
			return SVal{Term: fmt.Sprintf("(str.++ %s %s)", a.Term, b.Term), Sort: "String", Type: a.Type}
		}
		return SVal{Term: fmt.Sprintf("(+ %s %s)", a.Term, b.Term), Sort: a.Sort, Type: a.Type}
	case "-", "*":
		return SVal{Term: fmt.Sprintf("(%s %s %s)", op, a.Term, b.Term), Sort: a.Sort}
	case "/":
		if a.Sort == "Real" {
			return SVal{Term: fmt.Sprintf("(/ %s %s)", a.Term, b.Term), Sort: "Real"}
		}
		return SVal{Term: fmt.Sprintf("(tdiv %s %s)", a.Term, b.Term), Sort: "Int"}
	case "%":
		return SVal{Term: fmt.Sprintf("(tmod %s %s)", a.Term, b.Term), Sort: "Int"}
	}
	e.fail("operator %s", op)
	return SVal{}
}

func (e *specEnv) call(x *SExpr) SVal {
	name := x.Val
	arg := func(i int) SVal { return e.tr(x.Args[i]) }
	switch name {
	case "ghost":
		// ghost state variable (declared ";@ ghost name Sort" in the prelude); old(ghost(x)) reads the pre-state
		g := x.Args[0].Val
		so, ok := e.r.eng.Prelude.Ghosts[g]
		if !ok || len(x.Args) != 1 {
			e.fail("unknown ghost variable %q", g)
		}
		return SVal{Term: fmt.Sprintf("(select %s 0)", e.r.heapGet(e.state(), "GHOST_"+g)), Sort: so}
	case "len":
		a := arg(0)
		if a.Sort == "String" {
			return SVal{Term: fmt.Sprintf("(str.len %s)", a.Term), Sort: "Int"}
		}
		if strings.HasPrefix(a.Sort, "Slice_") {
			return SVal{Term: fmt.Sprintf("(len_%s %s)", strings.TrimPrefix(a.Sort, "Slice_"), a.Term), Sort: "Int"}
		}
		e.fail("len of sort %s", a.Sort)
	case "cap", "own", "nn":
		a := arg(0)
		if !strings.HasPrefix(a.Sort, "Slice_") {
			e.fail("%s of sort %s", name, a.Sort)
		}
		so := "Int"
		if name != "cap" {
			so = "Bool"
		}
		return SVal{Term: fmt.Sprintf("(%s_%s %s)", name, strings.TrimPrefix(a.Sort, "Slice_"), a.Term), Sort: so}
	case "int", "real":
		a := arg(0)
		if name == "real" && a.Sort == "Int" {
			return SVal{Term: fmt.Sprintf("(to_real %s)", a.Term), Sort: "Real"}
		}
		return a
	case "is":
		a, b := arg(0), arg(1)
		return SVal{Term: fmt.Sprintf("(and (not (= %s 0)) (err_is %s %s))", a.Term, a.Term, b.Term), Sort: "Bool"}
	case "istype":
		a := arg(0)
		t := e.resolveType(x.Args[1].Val)
		if t == nil {
			e.fail("unknown type %q", x.Args[1].Val)
		}
		return SVal{Term: e.r.eng.Sorts.IsType(t, a.Term), Sort: "Bool"}
	case "implements":
		a := arg(0)
		t := e.resolveType(x.Args[1].Val)
		if t == nil {
			e.fail("unknown type %q", x.Args[1].Val)
		}
		it, ok := t.Underlying().(*types.Interface)
		if !ok {
			e.fail("%s is not an interface", x.Args[1].Val)
		}
		return SVal{Term: e.r.eng.Sorts.Implements(it, shortName(t), a.Term), Sort: "Bool"}
	case "unbox":
		a := arg(0)
		t := e.resolveType(x.Args[1].Val)
		if t == nil {
			e.fail("unknown type %q", x.Args[1].Val)
		}
		return SVal{Term: e.r.eng.Sorts.Unbox(t, a.Term), Sort: e.r.eng.Sorts.SortOf(t), Type: t}
	case "box":
		a := arg(0)
		if a.Type == nil {
			e.fail("box of value with unknown Go type")
		}
		t, _ := e.r.eng.Sorts.Box(a.Type, a.Term)
		return SVal{Term: t, Sort: "Any"}
	case "zero":
		t := e.resolveType(x.Args[0].Val)
		if t == nil {
			e.fail("unknown type %q", x.Args[0].Val)
		}
		z := e.r.zero(t)
		return SVal{Term: z.Term, Sort: z.Sort, Type: t}
	case "fresh":
		a := arg(0)
		if strings.HasPrefix(a.Sort, "Slice_") {
			return SVal{Term: fmt.Sprintf("(own_%s %s)", strings.TrimPrefix(a.Sort, "Slice_"), a.Term), Sort: "Bool"}
		}
		return SVal{Term: fmt.Sprintf("(>= %s %s)", a.Term, e.r.nxt0), Sort: "Bool"}
	case "ite":
		c, a, b := arg(0), arg(1), arg(2)
		a, b = e.coerceNil(a, b)
		return SVal{Term: fmt.Sprintf("(ite %s %s %s)", c.Term, a.Term, b.Term), Sort: a.Sort, Type: a.Type}
	case "fits":
		// fits(x, y): the mathematical integer x is representable in the Go type of y
		a, b := arg(0), arg(1)
		if b.Type == nil {
			e.fail("fits: second argument has no Go type")
		}
		lo, hi, ok := intRange(b.Type)
		if !ok {
			e.fail("fits: %s is not an integer type", shortName(b.Type))
		}
		return SVal{Term: fmt.Sprintf("(and (<= %s %s) (<= %s %s))", lo, a.Term, a.Term, hi), Sort: "Bool"}
	case "isProtoMsg":
		a := arg(0)
		return SVal{Term: fmt.Sprintf("(isProtoMsg %s)", a.Term), Sort: "Bool"}
	case "validItem":
		a := arg(0)
		return SVal{Term: fmt.Sprintf("(validItem %s)", a.Term), Sort: "Bool"}
	case "validColl":
		a := arg(0)
		return SVal{Term: fmt.Sprintf("(validColl %s)", a.Term), Sort: "Bool"}
	case "haskey":
		m, k := arg(0), arg(1)
		dom, _, _, _ := e.r.mapHeaps(m.Type)
		hd := e.r.heapGet(e.state(), dom)
		// a nil map has no keys (Go: lookup on a nil map yields the zero value, ok == false)
		return SVal{Term: fmt.Sprintf("(and (not (= %s 0)) (select (select %s %s) %s))", m.Term, hd, m.Term, k.Term), Sort: "Bool"}
	}
	// fmt.Sprintf of a constant format and integer/string operands, as the engine models it
	if strings.HasPrefix(name, "sprintf_") {
		var as []string
		for i := range x.Args {
			as = append(as, arg(i).Term)
		}
		return SVal{Term: fmt.Sprintf("(%s %s)", name, strings.Join(as, " ")), Sort: "String"}
	}
	// type conversion T(x): same term, Go type T (named types over the same SMT sort)
	if len(x.Args) == 1 {
		if t := e.resolveType(name); t != nil {
			a := arg(0)
			if e.r.eng.Sorts.SortOf(t) == a.Sort {
				return SVal{Term: a.Term, Sort: a.Sort, Type: t}
			}
			e.fail("conversion %s(...) between different sorts", name)
		}
	}
	// prelude function
	if d, ok := e.r.eng.Prelude.Defs[name]; ok {
		if len(d.ArgSorts) != len(x.Args) {
			e.fail("%s expects %d arguments", name, len(d.ArgSorts))
		}
		var as []string
		for i := range x.Args {
			a := arg(i)
			if a.Sort == "NIL" {
				a, _ = e.coerceNil(a, SVal{Sort: d.ArgSorts[i]})
			}
			if a.Sort == "Int" && d.ArgSorts[i] == "Real" {
				a = SVal{Term: fmt.Sprintf("(to_real %s)", a.Term), Sort: "Real"}
			}
			if a.Sort != d.ArgSorts[i] && !(a.Sort == "Err" && d.ArgSorts[i] == "Int") && !(a.Sort == "Int" && d.ArgSorts[i] == "Err") {
				e.fail("%s: argument %d has sort %s, want %s", name, i+1, a.Sort, d.ArgSorts[i])
			}
			as = append(as, a.Term)
		}
		if len(as) == 0 {
			return SVal{Term: name, Sort: d.ResSort}
		}
		return SVal{Term: fmt.Sprintf("(%s %s)", name, strings.Join(as, " ")), Sort: d.ResSort}
	}
	e.fail("unknown spec function %q", name)
	return SVal{}
}
