package engine

import (
	"bufio"
	"fmt"
	"os"
	"path/filepath"
	"regexp"
	"sort"
	"strconv"
	"strings"
)

type Clause struct {
	Text string
	Expr *SExpr
	Line int
}

type LetClause struct {
	Name string
	Clause
}

type LoopSpec struct {
	Ordinal    int
	IdxName    string
	Invariants []Clause
	Decreases  *Clause
	Instantiate []Clause // lemma instances assumed at the loop header (terms may mention loop variables)
	Reveal     []Clause
}

type Contract struct {
	Key         string // ssa function string, or "iface:<pkg>.<Iface>.<Method>", "field:<pkg>.<Struct>.<Field>"
	File        string
	Header      string
	ParamNames  []string
	ResultNames []string
	Requires    []Clause
	Ensures     []Clause
	Lets        []LetClause
	Reveal      []Clause // reveal f(args): unfold an opaque spec function for these arguments
	Instantiate []Clause // ghost calls of pure contracted functions: "instantiate From(c[0])"
	Assuming    []Clause // guards of every ensures clause (type invariants of the inputs): not preconditions,
	// so totality and safety are proved without them and call sites need not establish them
	Defines     []Clause // definitional naming of a deterministic result by a spec function: assumed at call sites, never checked
	PanicsWhen  []Clause
	Loops       map[int]*LoopSpec
	Assigns     []string // location expressions; empty + AssignsSet => nothing
	AssignsSet  bool
	Trusted     bool // assumed (dependency or explicitly trusted): body never verified
	NoInline    bool
	Inline      bool
	MayPanic    bool // documented to panic (Must* helpers): panic-reachable not generated
	Lemma       bool
	Cumulative  bool // later ensures may assume earlier ones (each is still proved on its own)
	Decreases   *Clause // termination measure of a recursive function
	Global      bool
	Binders     []Binder // for lemmas
	Uses        []string // prelude symbols to force-include
	Fresh       []string // result names asserted fresh
	UsesLemmas  []string // lemmas (proved separately) assumed universally at entry
	Candidates  []string // for field contracts: the functions the value may be (dispatch)
	Used        bool
}

var headerRe = regexp.MustCompile(`^func\s+(?:\(\s*(\w+)\s+(\*?)([\w.\[\],]+)\s*\)\s*)?([^\s(]+|\([^)]*\)\.[\w\[\],$]+)\s*\(([^)]*)\)\s*(?:\(([^)]*)\))?\s*$`)

func firstWords(list string) []string {
	var out []string
	for _, p := range strings.Split(list, ",") {
		p = strings.TrimSpace(p)
		if p == "" {
			continue
		}
		out = append(out, strings.Fields(p)[0])
	}
	return out
}

// ParseContractFile reads //@ blocks. pkgPath is the import path the file belongs to
// ("" for files of assumed contracts, whose keys are written out in full).
func ParseContractFile(path, pkgPath string) ([]*Contract, error) {
	f, err := os.Open(path)
	if err != nil {
		return nil, err
	}
	defer f.Close()
	var out []*Contract
	var cur *Contract
	var curLoop *LoopSpec
	sc := bufio.NewScanner(f)
	sc.Buffer(make([]byte, 1<<20), 1<<20)
	ln := 0
	inSpecFile := strings.HasSuffix(path, ".spec")
	var pending string // continuation
	for sc.Scan() {
		ln++
		line := sc.Text()
		t := strings.TrimSpace(line)
		var body string
		switch {
		case strings.HasPrefix(t, "//@"):
			body = strings.TrimSpace(strings.TrimPrefix(t, "//@"))
		case strings.HasPrefix(t, "// @"):
			body = strings.TrimSpace(strings.TrimPrefix(t, "// @"))
		case inSpecFile && !strings.HasPrefix(t, "#") && !strings.HasPrefix(t, "//"):
			body = t
		default:
			continue
		}
		if body == "" {
			continue
		}
		if strings.HasSuffix(body, "\\") {
			pending += strings.TrimSuffix(body, "\\") + " "
			continue
		}
		body = pending + body
		pending = ""
		word := strings.Fields(body)[0]
		rest := strings.TrimSpace(strings.TrimPrefix(body, word))
		mk := func() (Clause, error) {
			e, err := ParseSpec(rest)
			if err != nil {
				return Clause{}, fmt.Errorf("%s:%d: %v", path, ln, err)
			}
			return Clause{Text: rest, Expr: e, Line: ln}, nil
		}
		switch word {
		case "global":
			// "global <name>": invariants of a package-level variable, established by the
			// package initialiser and assumed by every function of the package that claims a frame
			c := &Contract{File: path, Header: body, Loops: map[int]*LoopSpec{}, Key: "global:" + qualify(pkgPath, rest), Global: true}
			out = append(out, c)
			cur = c
			curLoop = &LoopSpec{}
			continue
		case "func", "iface", "field", "lemma":
			c := &Contract{File: path, Header: body, Loops: map[int]*LoopSpec{}}
			curLoop = nil
			if word == "lemma" {
				// lemma name(binders) : statement given by ensures
				m := regexp.MustCompile(`^(\w+)\s*\(([^)]*)\)\s*$`).FindStringSubmatch(rest)
				if m == nil {
					return nil, fmt.Errorf("%s:%d: bad lemma header", path, ln)
				}
				c.Key = "lemma:" + m[1]
				c.Lemma = true
				for _, p := range strings.Split(m[2], ",") {
					fs := strings.Fields(strings.TrimSpace(p))
					if len(fs) == 2 {
						c.Binders = append(c.Binders, Binder{fs[0], fs[1]})
					}
				}
				out = append(out, c)
				cur = c
				continue
			}
			if word == "field" && !strings.Contains(rest, "(") {
				rest += "()"
			}
			m := headerRe.FindStringSubmatch("func " + rest)
			if m == nil {
				return nil, fmt.Errorf("%s:%d: bad contract header %q", path, ln, body)
			}
			recvName, star, recvType, name, params, results := m[1], m[2], m[3], m[4], m[5], m[6]
			switch word {
			case "iface":
				c.Key = "iface:" + qualify(pkgPath, name)
			case "field":
				c.Key = "field:" + qualify(pkgPath, name)
			default:
				if recvType != "" {
					c.Key = "(" + star + qualify(pkgPath, recvType) + ")." + name
					// a closure inside a method ("m$1") has no receiver parameter: the
					// receiver is a captured variable like any other
					if !strings.Contains(name, "$") {
						c.ParamNames = append(c.ParamNames, recvName)
					}
				} else if strings.HasPrefix(name, "(") || strings.Contains(name, "/") || pkgPath == "" {
					c.Key = name
				} else {
					c.Key = qualify(pkgPath, name)
				}
			}
			c.ParamNames = append(c.ParamNames, firstWords(params)...)
			c.ResultNames = firstWords(results)
			if pkgPath == "" {
				c.Trusted = true
			}
			out = append(out, c)
			cur = c
		case "requires", "ensures", "assuming", "defines", "panics-when", "invariant", "decreases":
			if cur == nil {
				return nil, fmt.Errorf("%s:%d: clause outside contract", path, ln)
			}
			cl, err := mk()
			if err != nil {
				return nil, err
			}
			switch word {
			case "requires":
				cur.Requires = append(cur.Requires, cl)
			case "ensures":
				cur.Ensures = append(cur.Ensures, cl)
			case "defines":
				cur.Defines = append(cur.Defines, cl)
			case "assuming":
				cur.Assuming = append(cur.Assuming, cl)
			case "panics-when":
				cur.PanicsWhen = append(cur.PanicsWhen, cl)
			case "invariant":
				if cur.Global {
					cur.Ensures = append(cur.Ensures, cl)
					continue
				}
				if curLoop == nil {
					return nil, fmt.Errorf("%s:%d: invariant outside loop", path, ln)
				}
				curLoop.Invariants = append(curLoop.Invariants, cl)
			case "decreases":
				if curLoop == nil {
					cur.Decreases = &cl
				} else {
					curLoop.Decreases = &cl
				}
			}
		case "let":
			i := strings.Index(rest, "=")
			if i < 0 || cur == nil {
				return nil, fmt.Errorf("%s:%d: bad let", path, ln)
			}
			name := strings.TrimSpace(rest[:i])
			rest = strings.TrimSpace(rest[i+1:])
			cl, err := mk()
			if err != nil {
				return nil, err
			}
			cur.Lets = append(cur.Lets, LetClause{Name: name, Clause: cl})
		case "reveal":
			cl, err := mk()
			if err != nil {
				return nil, err
			}
			if curLoop != nil && !cur.Global {
				curLoop.Reveal = append(curLoop.Reveal, cl)
			} else {
				cur.Reveal = append(cur.Reveal, cl)
			}
		case "instantiate":
			cl, err := mk()
			if err != nil {
				return nil, err
			}
			if curLoop != nil && !cur.Global {
				curLoop.Instantiate = append(curLoop.Instantiate, cl)
			} else {
				cur.Instantiate = append(cur.Instantiate, cl)
			}
		case "loop":
			m := regexp.MustCompile(`^(\d+)\s*(?:\((\w+)\))?\s*:?\s*$`).FindStringSubmatch(rest)
			if m == nil || cur == nil {
				return nil, fmt.Errorf("%s:%d: bad loop header", path, ln)
			}
			n, _ := strconv.Atoi(m[1])
			curLoop = &LoopSpec{Ordinal: n, IdxName: m[2]}
			cur.Loops[n] = curLoop
		case "assigns":
			cur.AssignsSet = true
			if rest != "nothing" {
				for _, a := range strings.Split(rest, ",") {
					cur.Assigns = append(cur.Assigns, strings.TrimSpace(a))
				}
			}
		case "cumulative":
			cur.Cumulative = true
		case "trusted":
			cur.Trusted = true
		case "noinline":
			cur.NoInline = true
		case "inline":
			cur.Inline = true
		case "may-panic":
			cur.MayPanic = true
		case "uses":
			for _, a := range strings.Split(rest, ",") {
				cur.Uses = append(cur.Uses, strings.TrimSpace(a))
			}
		case "uses-lemma":
			for _, a := range strings.Split(rest, ",") {
				cur.UsesLemmas = append(cur.UsesLemmas, strings.TrimSpace(a))
			}
		case "candidates":
			for _, a := range strings.Split(rest, ",") {
				cur.Candidates = append(cur.Candidates, strings.TrimSpace(a))
			}
		case "fresh":
			for _, a := range strings.Split(rest, ",") {
				cur.Fresh = append(cur.Fresh, strings.TrimSpace(a))
			}
		default:
			return nil, fmt.Errorf("%s:%d: unknown clause %q", path, ln, word)
		}
	}
	return out, sc.Err()
}

func qualify(pkgPath, name string) string {
	if pkgPath == "" || strings.Contains(name, "/") {
		return name
	}
	return pkgPath + "." + name
}

// LoadContracts reads every verif_contracts.go under repoDir and every *.spec under extDir.
func LoadContracts(repoDir, extDir string, pkgPathOf func(dir string) string) (map[string]*Contract, []string, error) {
	out := map[string]*Contract{}
	var files []string
	err := filepath.Walk(repoDir, func(p string, info os.FileInfo, err error) error {
		if err != nil {
			return nil
		}
		if info.IsDir() && (info.Name() == ".git" || info.Name() == "snapshot") {
			return filepath.SkipDir
		}
		if !info.IsDir() && info.Name() == "verif_contracts.go" {
			files = append(files, p)
		}
		return nil
	})
	if err != nil {
		return nil, nil, err
	}
	sort.Strings(files)
	for _, f := range files {
		cs, err := ParseContractFile(f, pkgPathOf(filepath.Dir(f)))
		if err != nil {
			return nil, nil, err
		}
		for _, c := range cs {
			if _, dup := out[c.Key]; dup {
				return nil, nil, fmt.Errorf("%s: duplicate contract for %s", f, c.Key)
			}
			// a contract in /repo without an assigns clause claims the empty frame: callers
			// treat the function as writing nothing, so its body is checked to write nothing
			if !c.AssignsSet && !strings.HasPrefix(c.Key, "global:") && !strings.HasPrefix(c.Key, "lemma:") {
				c.AssignsSet = true
			}
			out[c.Key] = c
		}
	}
	exts, _ := filepath.Glob(filepath.Join(extDir, "*.spec"))
	lem, _ := filepath.Glob(filepath.Join(filepath.Dir(extDir), "lemmas", "*.spec"))
	exts = append(exts, lem...)
	sort.Strings(exts)
	for _, f := range exts {
		cs, err := ParseContractFile(f, "")
		if err != nil {
			return nil, nil, err
		}
		for _, c := range cs {
			if _, dup := out[c.Key]; dup {
				return nil, nil, fmt.Errorf("%s: duplicate contract for %s", f, c.Key)
			}
			out[c.Key] = c
		}
		files = append(files, f)
	}
	return out, files, nil
}
