package engine

import (
	"fmt"
	"go/types"
	"regexp"
	"sort"
	"strings"

	"golang.org/x/tools/go/ssa"
)

type FuncReport struct {
	Func        string
	Key         string
	HasContract bool
	Obligations []*Obligation
	Assumed     []string
	Inlined     []string
	Error       string
	PreludeSyms []string
	Axioms      []string
	QueryBytes  int
	UsedLemmas  []string
	SolverTimeS float64
	Preamble    string
	LightPreamble string
	RecSyms     []string
	items       []item
	Params      []ParamInfo
	Results     []ParamInfo
	// DynCalls: the dynamic interface calls governed by an interface contract, in symbolic
	// execution order: receiver term and result terms (used by the replay to build stubs
	// that answer with what the model says those calls returned)
	DynCalls []DynCall
}

type DynCall struct {
	Key     string
	Recv    string
	Results []string
	Sorts   []string
}

type ParamInfo struct {
	Name string
	Term string
	Sort string
	Type string
}

func (e *Engine) newRun(fn *ssa.Function, name string) *run {
	r := &run{eng: e, root: fn, rootName: name, counters: map[string]int{}, assumed: map[string]bool{},
		heapSort: map[string]string{}, globDecl: map[*ssa.Global]string{}, usedCtr: map[string]bool{}, inlined: map[string]bool{}, depthCap: 5}
	// ghost state variables exist from the start, so that every "assigns *" havoc reaches them
	for g, so := range e.Prelude.Ghosts {
		r.heapSort["GHOST_"+g] = so
	}
	// error sentinels in scope: those of the function's package and of the repo packages it imports
	var root *types.Package
	if fn != nil {
		if pk := FnPkg(fn); pk != nil {
			root = pk.Pkg
		}
	}
	if root == nil {
		if sp := e.SSAPkgs[repoMod+"/fhirpath/internal/funcs/impl"]; sp != nil {
			root = sp.Pkg
		}
	}
	seen := map[*types.Package]bool{}
	var walk func(p *types.Package)
	walk = func(p *types.Package) {
		if seen[p] || !inRepo(p) {
			return
		}
		seen[p] = true
		for _, im := range p.Imports() {
			walk(im)
		}
	}
	if root != nil {
		walk(root)
	}
	for _, g := range e.ErrGlobs {
		if seen[g.Pkg.Pkg] {
			r.sentinels = append(r.sentinels, g)
		}
	}
	return r
}

// VerifyFunction generates the obligations of one function (its contract clauses plus the
// language-level safety conditions) from its go/ssa body.
func (e *Engine) VerifyFunction(fn *ssa.Function) (rep *FuncReport) {
	name := FuncDisplayName(fn)
	rep = &FuncReport{Func: name, Key: fn.String()}
	r := e.newRun(fn, name)
	defer func() {
		if p := recover(); p != nil {
			if ee, ok := p.(execError); ok {
				rep.Error = ee.msg
				return
			}
			// an internal error of the generator: the function's obligations cannot be
			// produced, which is reported like any other lowering failure (fail closed)
			rep.Error = fmt.Sprintf("internal error of the generator: %v", p)
		}
	}()
	ct := e.Contracts[fn.String()]
	if ct == nil && fn.Origin() != nil {
		ct = e.Contracts[fn.Origin().String()]
	}
	rep.HasContract = ct != nil
	if ct != nil {
		ct.Used = true
	}
	st := &State{iters: map[*ssa.Range]string{}, cells: map[*ssa.Alloc]Val{}, heaps: map[string]string{}, globals: map[*ssa.Global]Val{}}
	r.nxt0 = r.fresh("nxt0", "Int")
	r.assume("true", fmt.Sprintf("(< 0 %s)", r.nxt0))
	st.nxt = r.nxt0
	fr := &frame{fn: fn, name: name, vals: map[ssa.Value]Val{}, contract: ct, params: map[string]Val{}}
	fr.root = fr
	var args []Val
	for i, p := range fn.Params {
		pname := p.Name()
		if ct != nil {
			if len(ct.ParamNames) != len(fn.Params) {
				r.unsupported("contract for %s binds %d parameters, function has %d", fn.String(), len(ct.ParamNames), len(fn.Params))
			}
			pname = ct.ParamNames[i]
		}
		v := r.symbolic("p_"+mangle(pname), p.Type())
		r.refFact(st, p.Type(), v.Term)
		args = append(args, v)
		fr.params[pname] = v
		fr.params[p.Name()] = v
		rep.Params = append(rep.Params, ParamInfo{Name: pname, Term: v.Term, Sort: v.Sort, Type: shortName(p.Type())})
	}
	for i, fv := range fn.FreeVars {
		v := r.symbolic(fmt.Sprintf("fv%d", i), fv.Type())
		fr.vals[fv] = v
		if _, isPtr := fv.Type().Underlying().(*types.Pointer); isPtr && v.Sort == "Int" {
			// a captured variable is reached through a pointer to its (live) cell
			r.assume("true", fmt.Sprintf("(not (= %s 0))", v.Term))
		}
	}
	r.entry = st.clone()
	if ct != nil {
		env := r.newEnv(fr, st)
		env.ensMode = true
		r.bindLets(env, ct, fr)
		for _, rq := range ct.Requires {
			r.assumeClause(env, "true", rq.Expr, rq.Text)
		}
		for _, u := range ct.Uses {
			r.force = append(r.force, u)
		}
		r.instantiate(fr, st, ct, env)
		r.assumeLemmas(ct)
		for _, rc := range ct.Reveal {
			r.reveal(env, "true", rc)
		}
	}
	// invariants of the package's global tables: assumed when this function claims a frame
	// (its stores and map updates are then proved not to touch them)
	var ginv []*Contract
	if pk := FnPkg(fn); pk != nil {
		prefix := "global:" + pk.Pkg.Path() + "."
		var keys []string
		for k := range e.Contracts {
			if strings.HasPrefix(k, prefix) {
				keys = append(keys, k)
			}
		}
		sort.Strings(keys)
		for _, k := range keys {
			ginv = append(ginv, e.Contracts[k])
		}
	}
	if fn.Name() != "init" && ct != nil && ct.AssignsSet {
		env := r.newEnv(fr, st)
		env.ensMode = true
		for _, g := range ginv {
			g.Used = true
			for _, inv := range g.Ensures {
				r.assumeClause(env, "true", inv.Expr, inv.Text)
			}
			r.assumed["global invariant (proved on the package initialiser): "+g.Key] = true
		}
	}
	r.frameRefines(fn, ct, name)
	// vacuity canary: the preconditions must be satisfiable
	vac := r.oblige(name, "vacuity", "true", "false", "preconditions and typing facts are satisfiable (must be sat)", fn.Pos())
	_ = vac
	r.items = r.items[:len(r.items)-0]
	// remove the assumption that oblige added for the canary (assume false!)
	// (oblige appended: obligation item, then no assume because cond=="false" emits (assert false))
	r.dropLastAssume()
	results, outSt, outReach := r.execBody(fr, st, "true", args)
	if ct != nil && outReach != "false" {
		env := r.newEnv(fr, outSt)
		env.ensMode = true
		for k, v := range fr.lets {
			env.extra[k] = v
		}
		for i, res := range results {
			if i < len(ct.ResultNames) {
				env.extra[ct.ResultNames[i]] = SVal{Term: res.Term, Sort: res.Sort, Type: res.Type}
				rep.Results = append(rep.Results, ParamInfo{Name: ct.ResultNames[i], Term: res.Term, Sort: res.Sort})
			}
		}
		for _, f := range ct.Fresh {
			if v, ok := env.extra[f]; ok {
				var cond string
				if strings.HasPrefix(v.Sort, "Slice_") {
					cond = fmt.Sprintf("(own_%s %s)", strings.TrimPrefix(v.Sort, "Slice_"), v.Term)
				} else {
					cond = fmt.Sprintf("(>= %s %s)", v.Term, r.nxt0)
				}
				r.oblige(name, "ensures.fresh", outReach, cond, "result "+f+" is freshly allocated", fn.Pos())
			}
		}
		guard := r.assumingGuard(env, ct)
		for _, en := range ct.Ensures {
			t := r.specBool(env, en.Expr, en.Text)
			if guard != "true" {
				t = fmt.Sprintf("(=> %s %s)", guard, t)
			}
			r.oblige(name, "ensures", outReach, t, en.Text, fn.Pos())
			if ct.Cumulative {
				// later postconditions may build on earlier ones (each is proved on its own)
				r.assume(outReach, t)
			}
		}
	}
	if fn.Name() == "init" && outReach != "false" {
		env := r.newEnv(fr, outSt)
		env.ensMode = true
		for _, g := range ginv {
			g.Used = true
			for _, inv := range g.Ensures {
				r.oblige(name, "global-invariant", outReach, r.specBool(env, inv.Expr, inv.Text), strings.TrimPrefix(g.Key, "global:")+": "+inv.Text, fn.Pos())
			}
		}
	}
	e.finish(r, rep)
	return rep
}

func (r *run) dropLastAssume() {
	// the last item is "(assert false)" produced by oblige's assert-then-assume for the canary
	if n := len(r.items); n > 0 && r.items[n-1].kind == 0 && strings.Contains(r.items[n-1].text, "false") {
		r.items = r.items[:n-1]
	}
}

// VerifyLemma checks a lemma over spec functions only: forall binders. requires ==> ensures.
func (e *Engine) VerifyLemma(ct *Contract) (rep *FuncReport) {
	name := strings.TrimPrefix(ct.Key, "lemma:")
	rep = &FuncReport{Func: "lemma." + name, Key: ct.Key, HasContract: true}
	r := e.newRun(nil, rep.Func)
	defer func() {
		if p := recover(); p != nil {
			if ee, ok := p.(execError); ok {
				rep.Error = ee.msg
				return
			}
			// an internal error of the generator: the function's obligations cannot be
			// produced, which is reported like any other lowering failure (fail closed)
			rep.Error = fmt.Sprintf("internal error of the generator: %v", p)
		}
	}()
	ct.Used = true
	st := &State{iters: map[*ssa.Range]string{}, cells: map[*ssa.Alloc]Val{}, heaps: map[string]string{}, globals: map[*ssa.Global]Val{}}
	r.nxt0 = r.fresh("nxt0", "Int")
	st.nxt = r.nxt0
	r.entry = st
	env := r.newEnv(nil, st)
	if sp := e.SSAPkgs[repoMod+"/fhirpath/system"]; sp != nil {
		env.pkg = sp.Pkg
	}
	for _, b := range ct.Binders {
		so, t := env.sortOfName(b.Type)
		c := r.fresh("l_"+b.Name, so)
		if t != nil {
			r.assume("true", r.typeFacts(t, c))
		}
		env.extra[b.Name] = SVal{Term: c, Sort: so, Type: t}
		rep.Params = append(rep.Params, ParamInfo{Name: b.Name, Term: c, Sort: so})
	}
	for _, rq := range ct.Requires {
		r.assume("true", r.specBool(env, rq.Expr, rq.Text))
	}
	r.oblige(rep.Func, "vacuity", "true", "false", "lemma hypotheses are satisfiable (must be sat)", 0)
	r.dropLastAssume()
	for _, en := range ct.Ensures {
		r.oblige(rep.Func, "lemma", "true", r.specBool(env, en.Expr, en.Text), en.Text, 0)
	}
	for _, u := range ct.Uses {
		r.force = append(r.force, u)
	}
	e.finish(r, rep)
	return rep
}

var sentinelTok = regexp.MustCompile(`g_[A-Za-z0-9_]+`)

func (e *Engine) finish(r *run, rep *FuncReport) {
	rep.Obligations = r.obls
	rep.UsedLemmas = r.usedLemmas
	renumber(r.obls)
	for a := range r.assumed {
		rep.Assumed = append(rep.Assumed, a)
	}
	sort.Strings(rep.Assumed)
	for a := range r.inlined {
		rep.Inlined = append(rep.Inlined, a)
	}
	sort.Strings(rep.Inlined)
	var body strings.Builder
	for _, it := range r.items {
		if it.kind == 0 {
			body.WriteString(it.text)
			body.WriteByte('\n')
		} else {
			body.WriteString(it.ob.Reach + " " + it.ob.Cond + "\n")
		}
	}
	bs := body.String()
	var pre strings.Builder
	pre.WriteString(e.Sorts.Decls())
	pre.WriteString(e.Sorts.OtherDecls(bs))
	pre.WriteString("(declare-fun err_is (Err Err) Bool)\n")
	// sentinels mentioned in the body
	ment := map[string]bool{}
	for _, t := range sentinelTok.FindAllString(bs, -1) {
		ment[t] = true
	}
	var sent []string
	for _, g := range e.ErrGlobs {
		n := "g_" + mangle(g.Pkg.Pkg.Name()+"."+g.Name())
		if ment[n] {
			sent = append(sent, n)
		}
	}
	for _, s := range sent {
		fmt.Fprintf(&pre, "(declare-const %s Err)\n(assert (< 0 %s))\n(assert (err_is %s %s))\n", s, s, s, s)
	}
	if len(sent) > 1 {
		fmt.Fprintf(&pre, "(assert (distinct %s))\n", strings.Join(sent, " "))
		for _, a := range sent {
			for _, b := range sent {
				if a != b {
					fmt.Fprintf(&pre, "(assert (not (err_is %s %s)))\n", a, b)
				}
			}
		}
	}
	ptxt, names, axs := e.Prelude.Select(bs, r.force)
	pre.WriteString(ptxt)
	rep.PreludeSyms, rep.Axioms = names, axs
	rep.Preamble = pre.String()
	// light preamble: same declarations, without recursive definitions and quantified axioms
	var lp strings.Builder
	for _, form := range splitTopLevel(rep.Preamble) {
		if strings.HasPrefix(form, "(define-fun-rec ") {
			toks := sexprTokens(form)
			rep.RecSyms = append(rep.RecSyms, toks[2])
			continue
		}
		if strings.HasPrefix(form, "(assert ") && strings.Contains(form, "(forall ") {
			continue
		}
		lp.WriteString(form)
		lp.WriteByte('\n')
	}
	// definitions that use a recursive symbol cannot stay either
	changed := true
	for changed {
		changed = false
		var lp2 strings.Builder
		for _, form := range splitTopLevel(lp.String()) {
			drop := false
			if strings.HasPrefix(form, "(define-fun ") {
				for _, rs := range rep.RecSyms {
					if strings.Contains(form, "("+rs+" ") {
						drop = true
					}
				}
			}
			if drop {
				rep.RecSyms = append(rep.RecSyms, sexprTokens(form)[2])
				changed = true
				continue
			}
			lp2.WriteString(form)
			lp2.WriteByte('\n')
		}
		lp = lp2
	}
	rep.LightPreamble = lp.String()
	rep.items = r.items
	rep.DynCalls = r.dynCalls
	rep.QueryBytes = len(rep.Preamble) + len(bs)
}

// relevantSentinels restricts the error sentinels an Errorf is related to.
func (e *Engine) sentinelUniverse() []*ssa.Global { return e.ErrGlobs }

var _ = types.Typ

// renumber makes obligation ordinals follow source order (line), not execution order, so
// names are stable under reorderings of the control-flow traversal.
func renumber(obls []*Obligation) {
	groups := map[string][]*Obligation{}
	for _, ob := range obls {
		i := strings.LastIndex(ob.Name, ".")
		groups[ob.Name[:i]] = append(groups[ob.Name[:i]], ob)
	}
	for prefix, g := range groups {
		idx := make([]int, len(g))
		for i := range idx {
			idx[i] = i
		}
		sort.SliceStable(idx, func(a, b int) bool { return posLine(g[idx[a]].Pos) < posLine(g[idx[b]].Pos) })
		for n, i := range idx {
			g[i].Name = fmt.Sprintf("%s.%d", prefix, n+1)
		}
	}
}

func posLine(p string) int {
	i := strings.LastIndex(p, ":")
	if i < 0 {
		return 1 << 30
	}
	n := 0
	fmt.Sscanf(p[i+1:], "%d", &n)
	return n
}

// bindLets evaluates the contract's let-abbreviations over the entry state.
func (r *run) bindLets(env *specEnv, ct *Contract, fr *frame) {
	fr.lets = map[string]SVal{}
	for _, l := range ct.Lets {
		v := env.tr(l.Expr)
		env.extra[l.Name] = v
		fr.lets[l.Name] = v
	}
}

// instantiate performs ghost calls of pure, contracted functions at function entry: the
// callee's preconditions become obligations, its postconditions become known facts about
// the (spec-level) result. Sound for callees whose contract says "assigns nothing".
func (r *run) instantiate(fr *frame, st *State, ct *Contract, env *specEnv) {
	for _, ic := range ct.Instantiate {
		guard := "true"
		if ic.Expr.Op == "bin" && ic.Expr.Val == "==>" {
			guard = r.specBool(env, ic.Expr.Args[0], ic.Text)
			ic.Expr = ic.Expr.Args[1]
		}
		if ic.Expr.Op != "call" {
			r.unsupported("instantiate expects a call: %s", ic.Text)
		}
		if r.eng.Contracts["lemma:"+ic.Expr.Val] != nil {
			r.lemmaInstance(env, guard, Clause{Text: ic.Text, Expr: ic.Expr})
			continue
		}
		name := ic.Expr.Val
		var target *Contract
		var callee *ssa.Function
		for k, c := range r.eng.Contracts {
			if strings.HasSuffix(k, "."+name) || strings.HasSuffix(k, "/"+name) || k == name {
				if f := r.eng.Funcs[k]; f != nil {
					if callee != nil && f != callee {
						// prefer same package
						if FnPkg(f) != nil && FnPkg(fr.fn) != nil && FnPkg(f) == FnPkg(fr.fn) {
							target, callee = c, f
						}
						continue
					}
					target, callee = c, f
				}
			}
		}
		if target == nil {
			r.unsupported("instantiate: no contracted function %q", name)
		}
		if !target.AssignsSet || len(target.Assigns) > 0 {
			r.unsupported("instantiate: %s is not declared pure (assigns nothing)", name)
		}
		var args []Val
		for i, a := range ic.Expr.Args {
			v := env.tr(a)
			var t types.Type
			if i < len(callee.Params) {
				t = callee.Params[i].Type()
			}
			args = append(args, Val{Term: v.Term, Sort: v.Sort, Type: t})
		}
		r.applyContract(fr, st, target, callee.Signature, callee, args, guard, fr.fn.Pos(), callee.String())
	}
}

// assumeLemmas assumes the universal closure of lemmas that are proved separately (the check
// command adds every lemma used to its job list).
func (r *run) assumeLemmas(ct *Contract) {
	for _, ln := range ct.UsesLemmas {
		lem := r.eng.Contracts["lemma:"+ln]
		if lem == nil {
			r.unsupported("unknown lemma %q", ln)
		}
		lem.Used = true
		env := r.newEnv(nil, r.entry)
		if sp := r.eng.SSAPkgs[repoMod+"/fhirpath/system"]; sp != nil {
			env.pkg = sp.Pkg
		}
		var bs []string
		for _, b := range lem.Binders {
			so, t := env.sortOfName(b.Type)
			env.bound[b.Name] = SVal{Term: b.Name + "!l", Sort: so, Type: t}
			bs = append(bs, fmt.Sprintf("(%s!l %s)", b.Name, so))
		}
		var hyp, concl []string
		for _, rq := range lem.Requires {
			hyp = append(hyp, r.specBool(env, rq.Expr, rq.Text))
		}
		for _, en := range lem.Ensures {
			concl = append(concl, r.specBool(env, en.Expr, en.Text))
		}
		r.emit(fmt.Sprintf("(assert (forall (%s) (=> %s %s)))", strings.Join(bs, " "), and(hyp...), and(concl...)))
		r.assumed["lemma (proved separately): "+ln] = true
		r.usedLemmas = append(r.usedLemmas, ln)
	}
}

func (r *run) assumingGuard(env *specEnv, ct *Contract) string {
	var gs []string
	for _, a := range ct.Assuming {
		gs = append(gs, r.specBool(env, a.Expr, a.Text))
	}
	return and(gs...)
}

// frameRefines: a method under contract that implements an interface method with an
// interface contract (assumed at every dynamic call) must not claim a larger frame than the
// interface contract allows; positions are matched by parameter index (DESIGN §8 C03).
func (r *run) frameRefines(fn *ssa.Function, ct *Contract, name string) {
	if ct == nil || fn.Signature.Recv() == nil {
		return
	}
	recvT := fn.Signature.Recv().Type()
	for key, ic := range r.eng.Contracts {
		if !strings.HasPrefix(key, "iface:") || !strings.HasSuffix(key, "."+fn.Name()) {
			continue
		}
		k := strings.TrimSuffix(strings.TrimPrefix(key, "iface:"), "."+fn.Name())
		it := r.eng.LookupType(k)
		if it == nil {
			continue
		}
		iface, ok := it.Underlying().(*types.Interface)
		if !ok || !types.Implements(recvT, iface) {
			continue
		}
		ic.Used = true
		allowed := map[string]bool{}
		all := false
		for _, a := range ic.Assigns {
			if a == "*" {
				all = true
			}
			parts := strings.Split(a, ".")
			if len(parts) == 2 {
				for i, pn := range ic.ParamNames {
					if pn == parts[0] {
						allowed[fmt.Sprintf("%d.%s", i, parts[1])] = true
					}
				}
			}
		}
		for _, a := range ct.Assigns {
			ok := all
			parts := strings.Split(a, ".")
			if len(parts) == 2 && !strings.HasPrefix(a, "map:") {
				for i, pn := range ct.ParamNames {
					if pn == parts[0] && allowed[fmt.Sprintf("%d.%s", i, parts[1])] {
						ok = true
					}
				}
			}
			cond := "false"
			if ok {
				cond = "true"
			}
			r.oblige(name, "frame.refines", "true", cond, fmt.Sprintf("assigns %s is within the frame of the interface contract %s (assigns %s)", a, strings.TrimPrefix(key, "iface:"), strings.Join(ic.Assigns, ", ")), fn.Pos())
		}
	}
}
