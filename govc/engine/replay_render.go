package engine

import (
	"fmt"
	"go/types"
	"math/big"
	"os"
	"path/filepath"
	"sort"
	"strconv"
	"strings"

	"golang.org/x/tools/go/ssa"
)

// ---- tiny s-expression tree ------------------------------------------------------

type sx struct {
	atom string
	kids []*sx
}

func parseSx(toks []string, i int) (*sx, int) {
	if toks[i] != "(" {
		return &sx{atom: toks[i]}, i + 1
	}
	n := &sx{}
	i++
	for i < len(toks) && toks[i] != ")" {
		var k *sx
		k, i = parseSx(toks, i)
		n.kids = append(n.kids, k)
	}
	return n, i + 1
}

func (s *sx) head() string {
	if len(s.kids) > 0 && s.kids[0].atom != "" {
		return s.kids[0].atom
	}
	return ""
}

func (s *sx) String() string {
	if s.atom != "" || len(s.kids) == 0 {
		if s.atom == "" {
			return "()"
		}
		return s.atom
	}
	var ps []string
	for _, k := range s.kids {
		ps = append(ps, k.String())
	}
	return "(" + strings.Join(ps, " ") + ")"
}

type renderer struct {
	e       *Engine
	pkg     *types.Package
	imports map[string]string // path -> alias
	notes   []string
	rep     *FuncReport
	vals    map[string]string
	stubs   bool
}

func (rd *renderer) qual(p *types.Package) string {
	if p == rd.pkg {
		return ""
	}
	if a, ok := rd.imports[p.Path()]; ok {
		return a
	}
	a := fmt.Sprintf("vp%d_%s", len(rd.imports), p.Name())
	rd.imports[p.Path()] = a
	return a
}

func (rd *renderer) typeStr(t types.Type) string {
	return types.TypeString(t, rd.qual)
}

func sxInt(s *sx) (*big.Int, bool) {
	if s.atom != "" {
		n, ok := new(big.Int).SetString(s.atom, 10)
		return n, ok
	}
	if s.head() == "-" && len(s.kids) == 2 {
		n, ok := sxInt(s.kids[1])
		if ok {
			return n.Neg(n), true
		}
	}
	return nil, false
}

func sxRat(s *sx) (*big.Rat, bool) {
	if s.atom != "" {
		r, ok := new(big.Rat).SetString(s.atom)
		return r, ok
	}
	switch s.head() {
	case "-":
		if len(s.kids) == 2 {
			r, ok := sxRat(s.kids[1])
			if ok {
				return r.Neg(r), true
			}
		}
	case "/":
		if len(s.kids) == 3 {
			a, ok1 := sxRat(s.kids[1])
			b, ok2 := sxRat(s.kids[2])
			if ok1 && ok2 && b.Sign() != 0 {
				return a.Quo(a, b), true
			}
		}
	}
	return nil, false
}

func smtUnescape(lit string) (string, bool) {
	if len(lit) < 2 || lit[0] != '"' {
		return "", false
	}
	s := lit[1 : len(lit)-1]
	s = strings.ReplaceAll(s, "\"\"", "\"")
	var b strings.Builder
	for i := 0; i < len(s); i++ {
		if s[i] == '\\' && i+2 < len(s) && s[i+1] == 'u' {
			j := i + 2
			var hex string
			if s[j] == '{' {
				k := strings.IndexByte(s[j:], '}')
				if k < 0 {
					return "", false
				}
				hex = s[j+1 : j+k]
				i = j + k
			} else if j+4 <= len(s) {
				hex = s[j : j+4]
				i = j + 3
			}
			n, err := strconv.ParseUint(hex, 16, 32)
			if err != nil {
				return "", false
			}
			if n < 256 {
				b.WriteByte(byte(n)) // Go strings are byte sequences in the encoding
			} else {
				b.WriteRune(rune(n))
			}
			continue
		}
		b.WriteByte(s[i])
	}
	return b.String(), true
}

// ratDecimal renders a rational as a decimal string (exact if it terminates within 40 digits).
func ratDecimal(r *big.Rat) (string, bool) {
	for d := 0; d <= 40; d++ {
		s := r.FloatString(d)
		back, _ := new(big.Rat).SetString(s)
		if back.Cmp(r) == 0 {
			return s, true
		}
	}
	return r.FloatString(30), false
}

func (rd *renderer) render(t types.Type, v *sx) (string, bool) {
	so := rd.e.Sorts.SortOf(t)
	switch {
	case isErrorType(t):
		if n, ok := sxInt(v); ok && n.Sign() == 0 {
			return "nil", true
		}
		return "", false
	case isDecimal(t):
		r, ok := sxRat(v)
		if !ok {
			return "", false
		}
		ds, exact := ratDecimal(r)
		if !exact {
			rd.notes = append(rd.notes, "a non-terminating rational model value was rounded to 30 places")
		}
		dq := rd.qualPath("github.com/shopspring/decimal", "decimal")
		inner := fmt.Sprintf("%s.RequireFromString(%q)", dq, ds)
		if n, isN := t.(*types.Named); isN && n.Obj().Pkg().Path() != "github.com/shopspring/decimal" {
			return fmt.Sprintf("%s(%s)", rd.typeStr(t), inner), true
		}
		return inner, true
	case so == "Int":
		if _, isB := t.Underlying().(*types.Basic); isB {
			n, ok := sxInt(v)
			if !ok {
				return "", false
			}
			return fmt.Sprintf("%s(%s)", rd.typeStr(t), n.String()), true
		}
		// pointers, maps, funcs
		if n, ok := sxInt(v); ok && n.Sign() == 0 {
			return "nil", true
		}
		if pt, ok := t.Underlying().(*types.Pointer); ok {
			if nt, ok := pt.Elem().(*types.Named); ok {
				if _, isS := nt.Underlying().(*types.Struct); isS && !strings.Contains(nt.Obj().Pkg().Path(), "_go_proto") {
					rd.notes = append(rd.notes, "a non-nil *"+nt.Obj().Name()+" parameter is replayed as a pointer to a zero value (the heap the model chose for it is not reproduced)")
					return "&" + rd.typeStr(nt) + "{}", true
				}
			}
		}
		return "", false
	case so == "Bool":
		if v.atom == "true" || v.atom == "false" {
			return fmt.Sprintf("%s(%s)", rd.typeStr(t), v.atom), true
		}
	case so == "String":
		s, ok := smtUnescape(v.atom)
		if !ok {
			return "", false
		}
		return fmt.Sprintf("%s(%q)", rd.typeStr(t), s), true
	case so == "Real":
		r, ok := sxRat(v)
		if !ok {
			return "", false
		}
		f, _ := r.Float64()
		return fmt.Sprintf("%s(%v)", rd.typeStr(t), f), true
	case so == "Any":
		if v.atom == "nil_any" {
			return "nil", true
		}
		if nt, ok := types.Unalias(t).(*types.Named); ok && nt.Obj().Name() == "Expression" && strings.HasSuffix(nt.Obj().Pkg().Path(), "/fhirpath/internal/expr") && rd.rep != nil {
			return rd.stubExpr(nt, v)
		}
		h := v.head()
		if ct, ok := rd.e.Sorts.ctorType[h]; ok && len(v.kids) == 2 {
			if _, handle := rd.e.Sorts.payloadSort(ct); handle {
				return "", false
			}
			return rd.render(ct, v.kids[1])
		}
		return "", false
	case strings.HasPrefix(so, "Slice_"):
		if v.head() != "mk_"+so || len(v.kids) != 6 {
			return "", false
		}
		ln, ok := sxInt(v.kids[2])
		if !ok || !ln.IsInt64() || ln.Int64() > 32 {
			return "", false
		}
		cp, _ := sxInt(v.kids[3])
		nn := v.kids[5].atom == "true"
		et := t.Underlying().(*types.Slice).Elem()
		n := int(ln.Int64())
		if n == 0 && !nn {
			return fmt.Sprintf("%s(nil)", rd.typeStr(t)), true
		}
		var elems []string
		for i := 0; i < n; i++ {
			ev, ok := arrayAt(v.kids[1], int64(i))
			if !ok {
				return "", false
			}
			es, ok := rd.render(et, ev)
			if !ok {
				return "", false
			}
			elems = append(elems, es)
		}
		lit := fmt.Sprintf("%s{%s}", rd.typeStr(t), strings.Join(elems, ", "))
		if cp != nil && cp.IsInt64() && cp.Int64() > int64(n) && cp.Int64() <= 64 {
			// reproduce spare capacity: it is what makes in-place append observable
			return fmt.Sprintf("append(make(%s, 0, %d), %s...)", rd.typeStr(t), cp.Int64(), lit), true
		}
		return lit, true
	case strings.HasPrefix(so, "S_"):
		si := rd.e.Sorts.StructInfo(so)
		if v.head() != "mk_"+so {
			return "", false
		}
		n, isN := t.(*types.Named)
		var parts []string
		for i := 0; i < si.gotype.NumFields(); i++ {
			f := si.gotype.Field(i)
			if !f.Exported() && isN && n.Obj().Pkg() != rd.pkg {
				return "", false
			}
			if i+1 >= len(v.kids) {
				return "", false
			}
			fs, ok := rd.render(f.Type(), v.kids[i+1])
			if !ok {
				return "", false
			}
			parts = append(parts, f.Name()+": "+fs)
		}
		return fmt.Sprintf("%s{%s}", rd.typeStr(t), strings.Join(parts, ", ")), true
	}
	return "", false
}

func (rd *renderer) qualPath(path, name string) string {
	if rd.pkg != nil && rd.pkg.Path() == path {
		return ""
	}
	if a, ok := rd.imports[path]; ok {
		return a
	}
	a := fmt.Sprintf("vp%d_%s", len(rd.imports), name)
	rd.imports[path] = a
	return a
}

// arrayAt evaluates an SMT array value (store chains over a constant array) at index i.
func arrayAt(a *sx, i int64) (*sx, bool) {
	for {
		switch a.head() {
		case "store":
			if len(a.kids) != 4 {
				return nil, false
			}
			idx, ok := sxInt(a.kids[2])
			if !ok {
				return nil, false
			}
			if idx.IsInt64() && idx.Int64() == i {
				return a.kids[3], true
			}
			a = a.kids[1]
		default:
			// ((as const (Array Int X)) v)
			if len(a.kids) == 2 && a.kids[0].head() == "as" {
				return a.kids[1], true
			}
			return nil, false
		}
	}
}

var safetyKinds = map[string]bool{"index": true, "slice-bounds": true, "div-by-zero": true, "nil-deref": true, "type-assert": true,
	"panic-reachable": true, "callee-pre": true, "makeslice": true, "nil-map-write": true, "nil-func-call": true}

func renderAndRun(e *Engine, rep *FuncReport, ob *Obligation, vals map[string]string, res ReplayResult) ReplayResult {
	fn := e.Funcs[rep.Key]
	if fn == nil {
		res.Note = "function not found for replay"
		return res
	}
	pk := FnPkg(fn)
	if pk == nil {
		res.Note = "no package for replay"
		return res
	}
	if fn.Parent() != nil || fn.Synthetic != "" {
		res.Note = "closures and synthetic functions are not replayed directly"
		return res
	}
	rd := &renderer{e: e, pkg: pk.Pkg, imports: map[string]string{}, rep: rep, vals: vals}
	var args []string
	for i, p := range fn.Params {
		pv, ok := vals[rep.Params[i].Term]
		if !ok {
			res.Note = "no model value for parameter " + rep.Params[i].Name
			return res
		}
		tree := parseModelValue(pv)
		gs, ok := rd.render(p.Type(), tree)
		if !ok {
			res.Note = fmt.Sprintf("model value of parameter %s (type %s) cannot be rendered as a Go expression: %s", rep.Params[i].Name, shortName(p.Type()), truncateStr(pv, 300))
			return res
		}
		args = append(args, gs)
	}
	if fn.Signature.Variadic() && len(args) > 0 {
		args[len(args)-1] += "..."
	}
	// call expression
	var call string
	name := fn.Name()
	if fn.Signature.Recv() != nil {
		call = fmt.Sprintf("(%s).%s(%s)", args[0], name, strings.Join(args[1:], ", "))
	} else {
		if len(fn.TypeArgs()) > 0 {
			var tas []string
			for _, ta := range fn.TypeArgs() {
				tas = append(tas, rd.typeStr(ta))
			}
			name = fn.Origin().Name() + "[" + strings.Join(tas, ", ") + "]"
		}
		call = fmt.Sprintf("%s(%s)", name, strings.Join(args, ", "))
	}
	nres := fn.Signature.Results().Len()
	var lhs []string
	for i := 0; i < nres; i++ {
		lhs = append(lhs, fmt.Sprintf("r%d", i))
	}
	var b strings.Builder
	fmt.Fprintf(&b, "package %s\n\nimport (\n\t\"fmt\"\n\t\"testing\"\n\t\"errors\"\n", pk.Pkg.Name())
	// sentinels of the package for error classification
	var sent []string
	for _, g := range e.ErrGlobs {
		if !strings.Contains(rep.Preamble, "(declare-const g_"+mangle(g.Pkg.Pkg.Name()+"."+g.Name())+" ") {
			continue
		}
		if g.Pkg == pk {
			sent = append(sent, g.Name())
		} else {
			a := rd.qual(g.Pkg.Pkg)
			sent = append(sent, a+"."+g.Name())
		}
	}
	// body
	var body strings.Builder
	body.WriteString("func TestVerifReplay(t *testing.T) {\n\t_ = errors.Is\n\tdefer func() {\n\t\tif r := recover(); r != nil {\n\t\t\tfmt.Printf(\"VERIF-PANIC: %v\\n\", r)\n\t\t}\n\t}()\n")
	if nres > 0 {
		fmt.Fprintf(&body, "\t%s := %s\n", strings.Join(lhs, ", "), call)
	} else {
		fmt.Fprintf(&body, "\t%s\n", call)
	}
	for i := 0; i < nres; i++ {
		rt := fn.Signature.Results().At(i).Type()
		if isErrorType(rt) {
			fmt.Fprintf(&body, "\tif r%d == nil {\n\t\tfmt.Println(\"VERIF-RESULT %d err nil\")\n\t} else {\n\t\tfmt.Printf(\"VERIF-RESULT %d err nonnil %%v\\n\", r%d)\n", i, i, i, i)
			for _, s := range sent {
				if !ast_exported(s) && strings.Contains(s, ".") {
					continue
				}
				fmt.Fprintf(&body, "\t\tif errors.Is(r%d, %s) {\n\t\t\tfmt.Println(\"VERIF-ERRIS %d %s\")\n\t\t}\n", i, s, i, s)
			}
			body.WriteString("\t}\n")
			continue
		}
		fmt.Fprintf(&body, "\tfmt.Printf(\"VERIF-RESULT %d val %%#v\\n\", %s)\n", i, printable(rt, fmt.Sprintf("r%d", i), rd))
	}
	body.WriteString("}\n")
	stubDecl := ""
	if rd.stubs {
		stubDecl = rd.stubDecls()
	}
	var imps []string
	for p, a := range rd.imports {
		if !strings.Contains(body.String(), a+".") && !strings.Contains(stubDecl, a+".") {
			continue
		}
		imps = append(imps, fmt.Sprintf("\t%s %q\n", a, p))
	}
	sort.Strings(imps)
	for _, im := range imps {
		b.WriteString(im)
	}
	b.WriteString(")\n\n")
	if rd.stubs {
		b.WriteString(stubDecl)
	}
	b.WriteString(body.String())
	res.Test = b.String()
	rel, _ := filepath.Rel(e.RepoDir, filepath.Dir(e.Prog.Fset.Position(fn.Pos()).Filename))
	res.PkgDir = rel
	out, _ := RunOverlayTest(e.RepoDir, rel, res.Test)
	res.Output = truncateStr(out, 6000)
	panicked := strings.Contains(out, "VERIF-PANIC:")
	if strings.Contains(out, "[build failed]") || strings.Contains(out, "cannot use") || strings.Contains(out, "undefined:") {
		res.Note = "generated replay test did not compile"
		return res
	}
	if safetyKinds[ob.Kind] || strings.HasPrefix(ob.Kind, "frame") {
		if safetyKinds[ob.Kind] {
			if panicked {
				res.Reproduced = true
				res.Note = "the real function panics on the model's inputs: " + firstLineWith(out, "VERIF-PANIC:")
			} else {
				res.Note = "the real function did not panic on the model's inputs (the model went through an over-approximating assumed contract)"
			}
			return res
		}
		res.Note = "frame obligations are replayed only through their known-finding witness programs"
		return res
	}
	if panicked {
		res.Reproduced = true
		res.Note = "the real function panics on the model's inputs instead of satisfying the clause: " + firstLineWith(out, "VERIF-PANIC:")
		return res
	}
	// evaluate the violated clause on (model inputs, real outputs) with the solver as evaluator
	ok, note := e.evalClauseOnOutputs(rep, ob, vals, out, fn)
	res.Reproduced = ok
	res.Note = note
	if len(rd.notes) > 0 {
		res.Note += " (" + strings.Join(rd.notes, "; ") + ")"
	}
	return res
}

func ast_exported(s string) bool {
	i := strings.LastIndex(s, ".")
	n := s[i+1:]
	return n != "" && n[0] >= 'A' && n[0] <= 'Z'
}

func printable(t types.Type, name string, rd *renderer) string {
	if isDecimal(t) {
		dq := rd.qualPath("github.com/shopspring/decimal", "decimal")
		return fmt.Sprintf("%s.Decimal(%s).String()", dq, name)
	}
	return name
}

func truncateStr(s string, n int) string {
	if len(s) > n {
		return s[:n] + "…"
	}
	return s
}

func firstLineWith(out, marker string) string {
	for _, l := range strings.Split(out, "\n") {
		if strings.Contains(l, marker) {
			return strings.TrimSpace(l)
		}
	}
	return ""
}

// evalClauseOnOutputs fixes parameters to the model values and results to the values the
// real function returned, and asks the solver whether the clause can hold.
func (e *Engine) evalClauseOnOutputs(rep *FuncReport, ob *Obligation, vals map[string]string, out string, fn *ssa.Function) (bool, string) {
	var b strings.Builder
	b.WriteString(smtHeader)
	b.WriteString(rep.Preamble)
	for _, it := range rep.items {
		if it.kind == 0 && strings.HasPrefix(it.text, "(declare-") {
			b.WriteString(it.text + "\n")
		}
	}
	for _, p := range rep.Params {
		if v, ok := vals[p.Term]; ok {
			fmt.Fprintf(&b, "(assert (= %s %s))\n", p.Term, v)
		}
	}
	// results
	for i, rp := range rep.Results {
		if i >= fn.Signature.Results().Len() {
			break
		}
		rt := fn.Signature.Results().At(i).Type()
		line := firstLineWith(out, fmt.Sprintf("VERIF-RESULT %d ", i))
		if line == "" {
			return false, "replay produced no result line"
		}
		rest := strings.TrimSpace(line[strings.Index(line, fmt.Sprintf("VERIF-RESULT %d ", i))+len(fmt.Sprintf("VERIF-RESULT %d ", i)):])
		switch {
		case isErrorType(rt):
			if strings.HasPrefix(rest, "err nil") {
				fmt.Fprintf(&b, "(assert (= %s 0))\n", rp.Term)
			} else {
				fmt.Fprintf(&b, "(assert (> %s 0))\n", rp.Term)
				for _, g := range e.ErrGlobs {
					gn := "g_" + mangle(g.Pkg.Pkg.Name()+"."+g.Name())
					if !strings.Contains(rep.Preamble, "(declare-const "+gn+" ") {
						continue
					}
					is := false
					for _, l := range strings.Split(out, "\n") {
						if strings.HasPrefix(strings.TrimSpace(l), fmt.Sprintf("VERIF-ERRIS %d ", i)) && strings.HasSuffix(strings.TrimSpace(l), g.Name()) {
							is = true
						}
					}
					if is {
						fmt.Fprintf(&b, "(assert (err_is %s %s))\n", rp.Term, gn)
					} else {
						fmt.Fprintf(&b, "(assert (not (err_is %s %s)))\n", rp.Term, gn)
					}
				}
			}
		default:
			sv, ok := goValueToSMT(e, rt, strings.TrimPrefix(rest, "val "))
			if !ok {
				return false, fmt.Sprintf("real output %q of type %s cannot be read back into the clause", rest, shortName(rt))
			}
			fmt.Fprintf(&b, "(assert (= %s %s))\n", rp.Term, sv)
		}
	}
	fmt.Fprintf(&b, "(assert %s)\n(check-sat)\n", ob.Cond)
	tmp, _ := os.MkdirTemp("", "govc-eval-")
	defer os.RemoveAll(tmp)
	f := filepath.Join(tmp, "eval.smt2")
	os.WriteFile(f, []byte(b.String()), 0o644)
	for _, s := range solvers[:2] {
		r := runSolver(contextBackground(), s, f, 20)
		if r.status == "unsat" {
			return true, "the clause is false on the model's inputs and the outputs the real function returned: " + summarizeResults(out)
		}
		if r.status == "sat" {
			return false, "the real function's outputs satisfy the clause on the model's inputs (model went through an over-approximating assumption): " + summarizeResults(out)
		}
	}
	return false, "could not evaluate the clause on the real outputs"
}

func summarizeResults(out string) string {
	var ls []string
	for _, l := range strings.Split(out, "\n") {
		if strings.Contains(l, "VERIF-RESULT") || strings.Contains(l, "VERIF-ERRIS") {
			ls = append(ls, strings.TrimSpace(l))
		}
	}
	return strings.Join(ls, "; ")
}

// goValueToSMT reads back a %#v-printed Go value of a simple type.
func goValueToSMT(e *Engine, t types.Type, s string) (string, bool) {
	s = strings.TrimSpace(s)
	so := e.Sorts.SortOf(t)
	switch {
	case isDecimal(t):
		// printed through .String(): a quoted decimal
		u, err := strconv.Unquote(s)
		if err != nil {
			return "", false
		}
		r, ok := new(big.Rat).SetString(u)
		if !ok {
			return "", false
		}
		return ratSMT(r), true
	case so == "Int":
		if _, isB := t.Underlying().(*types.Basic); !isB {
			return "", false
		}
		// forms: 5, -5, 0x5 (uint8 prints as 0x..)
		n, ok := new(big.Int).SetString(s, 0)
		if !ok {
			return "", false
		}
		return smtInt(n.String()), true
	case so == "Bool":
		if s == "true" || s == "false" {
			return s, true
		}
	case so == "String":
		u, err := strconv.Unquote(s)
		if err != nil {
			return "", false
		}
		return smtString(u), true
	case so == "Any":
		// system.Collection{...} is not Any; single boxed values printed as e.g. 5, "x", true with no type
		return "", false
	case strings.HasPrefix(so, "Slice_"):
		return goSliceToSMT(e, t, s)
	}
	return "", false
}

func ratSMT(r *big.Rat) string {
	neg := r.Sign() < 0
	a := new(big.Rat).Abs(r)
	s := fmt.Sprintf("(/ %s.0 %s.0)", a.Num().String(), a.Denom().String())
	if neg {
		s = "(- " + s + ")"
	}
	return s
}

// goSliceToSMT handles %#v of []any / system.Collection holding system scalars.
func goSliceToSMT(e *Engine, t types.Type, s string) (string, bool) {
	so := e.Sorts.SortOf(t)
	m := strings.TrimPrefix(so, "Slice_")
	if strings.HasSuffix(s, "(nil)") {
		return fmt.Sprintf("(mk_%s emptyarr_%s 0 0 true false)", so, m), true
	}
	i := strings.Index(s, "{")
	if i < 0 || !strings.HasSuffix(s, "}") {
		return "", false
	}
	inner := strings.TrimSpace(s[i+1 : len(s)-1])
	et := t.Underlying().(*types.Slice).Elem()
	arr := "emptyarr_" + m
	n := 0
	if inner != "" {
		for _, part := range splitTopCommas(inner) {
			ev, ok := goElemToSMT(e, et, strings.TrimSpace(part))
			if !ok {
				return "", false
			}
			arr = fmt.Sprintf("(store %s %d %s)", arr, n, ev)
			n++
		}
	}
	// cap and own are not observable: leave them to fresh choices is impossible in a ground
	// term, so fix cap = len (clauses about results speak of len and elements)
	return fmt.Sprintf("(mk_%s %s %d %d true true)", so, arr, n, n), true
}

func splitTopCommas(s string) []string {
	var out []string
	depth, start := 0, 0
	inStr := false
	for i := 0; i < len(s); i++ {
		c := s[i]
		if inStr {
			if c == '\\' {
				i++
			} else if c == '"' {
				inStr = false
			}
			continue
		}
		switch c {
		case '"':
			inStr = true
		case '(', '{', '[':
			depth++
		case ')', '}', ']':
			depth--
		case ',':
			if depth == 0 {
				out = append(out, s[start:i])
				start = i + 1
			}
		}
	}
	return append(out, s[start:])
}

func goElemToSMT(e *Engine, et types.Type, s string) (string, bool) {
	if _, isI := et.Underlying().(*types.Interface); !isI {
		return goValueToSMT(e, et, s)
	}
	// %#v of boxed system values: true / 5 / "x" carry no type; system types print as
	// e.g. system.Integer(5)? (%#v of named basic prints plain literal). Use heuristics on
	// the universe: only Boolean/Integer/String are readable.
	for _, cand := range []string{"system.Boolean", "system.Integer", "system.String"} {
		t := e.LookupType(cand)
		if t == nil {
			continue
		}
		if sv, ok := goValueToSMT(e, t, s); ok {
			bx, _ := e.Sorts.Box(t, sv)
			return bx, true
		}
	}
	return "", false
}

// stubExpr renders an expression node the model chose as a stub whose Evaluate answers, call
// by call, with what the model says the dynamic Evaluate calls on that node returned.
func (rd *renderer) stubExpr(nt *types.Named, v *sx) (string, bool) {
	me := v.String()
	var rs []string
	for _, dc := range rd.rep.DynCalls {
		if !strings.HasSuffix(dc.Key, ".Expression.Evaluate") || len(dc.Results) != 2 {
			continue
		}
		rv, ok := rd.vals[dc.Recv]
		if !ok {
			continue
		}
		rt := parseModelValue(rv)
		if rt.String() != me {
			continue
		}
		cv, ok1 := rd.vals[dc.Results[0]]
		ev, ok2 := rd.vals[dc.Results[1]]
		if !ok1 || !ok2 {
			continue
		}
		sysPkg := rd.sysPackage()
		if sysPkg == nil {
			return "", false
		}
		collT := sysPkg.Scope().Lookup("Collection").Type()
		ct := parseModelValue(cv)
		cs, ok := rd.render(collT, ct)
		if !ok {
			// the model's result for this call cannot be rendered: answer with an empty
			// collection (the replay then decides nothing by itself; only a confirmed
			// failure on the real code counts)
			rd.notes = append(rd.notes, "a sub-expression result chosen by the model could not be rendered: "+truncateStr(cv, 200))
			cs = rd.typeStr(collT) + "{}"
		}
		es := "nil"
		if n, ok := sxInt(mustSx(ev)); !ok || n.Sign() != 0 {
			es = "errors.New(\"verif: error chosen by the model\")"
			cs = "nil"
		}
		rs = append(rs, fmt.Sprintf("{%s, %s}", cs, es))
	}
	rd.stubs = true
	return fmt.Sprintf("&verifStubExpr{rs: []verifStubRes{%s}}", strings.Join(rs, ", ")), true
}

func mustSx(s string) *sx {
	return parseModelValue(s)
}

func (rd *renderer) sysPackage() *types.Package {
	for path, sp := range rd.e.SSAPkgs {
		if strings.HasSuffix(path, "/fhirpath/system") {
			return sp.Pkg
		}
	}
	return nil
}

func (rd *renderer) exprPackage() *types.Package {
	for path, sp := range rd.e.SSAPkgs {
		if strings.HasSuffix(path, "/fhirpath/internal/expr") {
			return sp.Pkg
		}
	}
	return nil
}

// stubDecls: the stub expression type used by replay tests.
func (rd *renderer) stubDecls() string {
	sp, ep := rd.sysPackage(), rd.exprPackage()
	if sp == nil || ep == nil {
		return ""
	}
	sq, eq := rd.qual(sp), rd.qual(ep)
	if sq != "" {
		sq += "."
	}
	if eq != "" {
		eq += "."
	}
	return fmt.Sprintf(`type verifStubRes struct {
	c %sCollection
	e error
}

// verifStubExpr answers the n-th Evaluate call with the n-th recorded result (the last one
// again when there are more calls than recorded results; empty when none was recorded).
type verifStubExpr struct {
	rs []verifStubRes
	n  int
}

func (s *verifStubExpr) Evaluate(*%sContext, %sCollection) (%sCollection, error) {
	if len(s.rs) == 0 {
		return %sCollection{}, nil
	}
	i := s.n
	if i >= len(s.rs) {
		i = len(s.rs) - 1
	}
	s.n++
	return s.rs[i].c, s.rs[i].e
}

`, sq, eq, sq, sq, sq)
}

// expandLets substitutes the (let ((x v) ...) body) bindings z3 uses in model values.
func expandLets(t *sx, env map[string]*sx) *sx {
	if t.atom != "" {
		if v, ok := env[t.atom]; ok {
			return v
		}
		return t
	}
	if t.head() == "let" && len(t.kids) == 3 {
		ne := map[string]*sx{}
		for k, v := range env {
			ne[k] = v
		}
		for _, b := range t.kids[1].kids {
			if len(b.kids) == 2 && b.kids[0].atom != "" {
				ne[b.kids[0].atom] = expandLets(b.kids[1], ne)
			}
		}
		return expandLets(t.kids[2], ne)
	}
	out := &sx{}
	for _, k := range t.kids {
		out.kids = append(out.kids, expandLets(k, env))
	}
	return out
}

func parseModelValue(s string) *sx {
	t, _ := parseSx(sexprTokens(s), 0)
	return expandLets(t, map[string]*sx{})
}
