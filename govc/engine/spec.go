package engine

import (
	"fmt"
	"strings"
	"unicode"
)

// ---- spec expression AST ----------------------------------------------------

type SExpr struct {
	Op   string // "int","real","str","bool","nil","id","sel","idx","slice","call","un","bin","forall","exists","old","typ"
	Val  string
	Args []*SExpr
	// quantifier binders
	Binders []Binder
	Pos     int
}

type Binder struct{ Name, Type string }

type specLexer struct {
	src  string
	pos  int
	tok  string
	kind int // 0 eof, 1 ident, 2 int, 3 string, 4 op, 5 real
}

func (l *specLexer) next() {
	for l.pos < len(l.src) && (l.src[l.pos] == ' ' || l.src[l.pos] == '\t' || l.src[l.pos] == '\n') {
		l.pos++
	}
	if l.pos >= len(l.src) {
		l.kind, l.tok = 0, ""
		return
	}
	c := l.src[l.pos]
	start := l.pos
	switch {
	case unicode.IsLetter(rune(c)) || c == '_' || c == '$':
		for l.pos < len(l.src) && (unicode.IsLetter(rune(l.src[l.pos])) || unicode.IsDigit(rune(l.src[l.pos])) || l.src[l.pos] == '_' || l.src[l.pos] == '$' || l.src[l.pos] == '#') {
			l.pos++
		}
		l.kind, l.tok = 1, l.src[start:l.pos]
	case c >= '0' && c <= '9':
		isReal := false
		for l.pos < len(l.src) && (l.src[l.pos] >= '0' && l.src[l.pos] <= '9' || l.src[l.pos] == '_') {
			l.pos++
		}
		if l.pos+1 < len(l.src) && l.src[l.pos] == '.' && l.src[l.pos+1] >= '0' && l.src[l.pos+1] <= '9' {
			isReal = true
			l.pos++
			for l.pos < len(l.src) && l.src[l.pos] >= '0' && l.src[l.pos] <= '9' {
				l.pos++
			}
		}
		l.tok = strings.ReplaceAll(l.src[start:l.pos], "_", "")
		if isReal {
			l.kind = 5
		} else {
			l.kind = 2
		}
	case c == '"':
		l.pos++
		var b strings.Builder
		for l.pos < len(l.src) && l.src[l.pos] != '"' {
			if l.src[l.pos] == '\\' && l.pos+1 < len(l.src) {
				l.pos++
				switch l.src[l.pos] {
				case 'n':
					b.WriteByte('\n')
				case 't':
					b.WriteByte('\t')
				case 'r':
					b.WriteByte('\r')
				case 'f':
					b.WriteByte('\f')
				default:
					b.WriteByte(l.src[l.pos])
				}
			} else {
				b.WriteByte(l.src[l.pos])
			}
			l.pos++
		}
		l.pos++
		l.kind, l.tok = 3, b.String()
	default:
		for _, op := range []string{"<==>", "==>", "::", "==", "!=", "<=", ">=", "&&", "||"} {
			if strings.HasPrefix(l.src[l.pos:], op) {
				l.pos += len(op)
				l.kind, l.tok = 4, op
				return
			}
		}
		l.pos++
		l.kind, l.tok = 4, string(c)
	}
}

type specParser struct {
	l   specLexer
	err error
}

func ParseSpec(src string) (*SExpr, error) {
	p := &specParser{l: specLexer{src: src}}
	p.l.next()
	e := p.expr()
	if p.err == nil && p.l.kind != 0 {
		p.err = fmt.Errorf("unexpected %q at %d in %q", p.l.tok, p.l.pos, src)
	}
	return e, p.err
}

func (p *specParser) fail(f string, a ...any) {
	if p.err == nil {
		p.err = fmt.Errorf(f, a...)
	}
}

func (p *specParser) accept(tok string) bool {
	if p.l.kind != 0 && p.l.kind != 3 && p.l.tok == tok {
		p.l.next()
		return true
	}
	return false
}

func (p *specParser) expect(tok string) {
	if !p.accept(tok) {
		p.fail("expected %q, got %q at %d in %q", tok, p.l.tok, p.l.pos, p.l.src)
	}
}

func (p *specParser) expr() *SExpr {
	if p.l.kind == 1 && (p.l.tok == "forall" || p.l.tok == "exists") {
		q := &SExpr{Op: p.l.tok}
		p.l.next()
		for {
			name := p.l.tok
			p.l.next()
			typ := p.typeName()
			q.Binders = append(q.Binders, Binder{name, typ})
			if !p.accept(",") {
				break
			}
		}
		p.expect("::")
		q.Args = []*SExpr{p.expr()}
		return q
	}
	return p.impl()
}

func (p *specParser) typeName() string {
	var b strings.Builder
	for p.l.kind == 4 && (p.l.tok == "*" || p.l.tok == "[" || p.l.tok == "]") {
		b.WriteString(p.l.tok)
		p.l.next()
	}
	b.WriteString(p.l.tok)
	p.l.next()
	for p.l.kind == 4 && p.l.tok == "." {
		p.l.next()
		b.WriteString("." + p.l.tok)
		p.l.next()
	}
	return b.String()
}

func (p *specParser) impl() *SExpr {
	l := p.iff()
	if p.accept("==>") {
		r := p.implRHS()
		return &SExpr{Op: "bin", Val: "==>", Args: []*SExpr{l, r}}
	}
	return l
}

func (p *specParser) implRHS() *SExpr {
	if p.l.kind == 1 && (p.l.tok == "forall" || p.l.tok == "exists") {
		return p.expr()
	}
	return p.impl()
}

func (p *specParser) iff() *SExpr {
	l := p.or()
	for p.accept("<==>") {
		r := p.or()
		l = &SExpr{Op: "bin", Val: "<==>", Args: []*SExpr{l, r}}
	}
	return l
}

func (p *specParser) or() *SExpr {
	l := p.and()
	for p.accept("||") {
		r := p.and()
		l = &SExpr{Op: "bin", Val: "||", Args: []*SExpr{l, r}}
	}
	return l
}

func (p *specParser) and() *SExpr {
	l := p.cmp()
	for p.accept("&&") {
		r := p.cmp()
		l = &SExpr{Op: "bin", Val: "&&", Args: []*SExpr{l, r}}
	}
	return l
}

func (p *specParser) cmp() *SExpr {
	l := p.add()
	for _, op := range []string{"==", "!=", "<=", ">=", "<", ">"} {
		if p.l.kind == 4 && p.l.tok == op {
			p.l.next()
			r := p.add()
			return &SExpr{Op: "bin", Val: op, Args: []*SExpr{l, r}}
		}
	}
	return l
}

func (p *specParser) add() *SExpr {
	l := p.mul()
	for p.l.kind == 4 && (p.l.tok == "+" || p.l.tok == "-") {
		op := p.l.tok
		p.l.next()
		r := p.mul()
		l = &SExpr{Op: "bin", Val: op, Args: []*SExpr{l, r}}
	}
	return l
}

func (p *specParser) mul() *SExpr {
	l := p.unary()
	for p.l.kind == 4 && (p.l.tok == "*" || p.l.tok == "/" || p.l.tok == "%") {
		op := p.l.tok
		p.l.next()
		r := p.unary()
		l = &SExpr{Op: "bin", Val: op, Args: []*SExpr{l, r}}
	}
	return l
}

func (p *specParser) unary() *SExpr {
	if p.l.kind == 4 && (p.l.tok == "!" || p.l.tok == "-") {
		op := p.l.tok
		p.l.next()
		return &SExpr{Op: "un", Val: op, Args: []*SExpr{p.unary()}}
	}
	return p.postfix()
}

func (p *specParser) postfix() *SExpr {
	e := p.primary()
	for p.err == nil {
		switch {
		case p.accept("."):
			if p.accept("(") { // type unbox  x.(T)
				t := p.typeName()
				p.expect(")")
				e = &SExpr{Op: "unbox", Val: t, Args: []*SExpr{e}}
				continue
			}
			name := p.l.tok
			p.l.next()
			e = &SExpr{Op: "sel", Val: name, Args: []*SExpr{e}}
		case p.accept("["):
			var lo, hi *SExpr
			if !(p.l.kind == 4 && p.l.tok == ":") {
				lo = p.expr()
			}
			if p.accept(":") {
				if !(p.l.kind == 4 && p.l.tok == "]") {
					hi = p.expr()
				}
				p.expect("]")
				e = &SExpr{Op: "slice", Args: []*SExpr{e, lo, hi}}
			} else {
				p.expect("]")
				e = &SExpr{Op: "idx", Args: []*SExpr{e, lo}}
			}
		case p.l.kind == 4 && p.l.tok == "(" && (e.Op == "id" || e.Op == "sel"):
			p.l.next()
			call := &SExpr{Op: "call", Val: flatName(e)}
			for !(p.l.kind == 4 && p.l.tok == ")") && p.err == nil && p.l.kind != 0 {
				if call.Val == "istype" || call.Val == "unbox" || call.Val == "implements" || call.Val == "zero" {
					if len(call.Args) == 1 || call.Val == "zero" {
						call.Args = append(call.Args, &SExpr{Op: "typ", Val: p.typeName()})
						if !p.accept(",") {
							break
						}
						continue
					}
				}
				call.Args = append(call.Args, p.expr())
				if !p.accept(",") {
					break
				}
			}
			p.expect(")")
			e = call
		default:
			return e
		}
	}
	return e
}

func flatName(e *SExpr) string {
	if e.Op == "id" {
		return e.Val
	}
	if e.Op == "sel" {
		return flatName(e.Args[0]) + "." + e.Val
	}
	return "?"
}

func (p *specParser) primary() *SExpr {
	switch p.l.kind {
	case 2:
		e := &SExpr{Op: "int", Val: p.l.tok}
		p.l.next()
		return e
	case 5:
		e := &SExpr{Op: "real", Val: p.l.tok}
		p.l.next()
		return e
	case 3:
		e := &SExpr{Op: "str", Val: p.l.tok}
		p.l.next()
		return e
	case 1:
		t := p.l.tok
		p.l.next()
		switch t {
		case "true", "false":
			return &SExpr{Op: "bool", Val: t}
		case "nil":
			return &SExpr{Op: "nil"}
		case "old":
			p.expect("(")
			e := p.expr()
			p.expect(")")
			return &SExpr{Op: "old", Args: []*SExpr{e}}
		}
		return &SExpr{Op: "id", Val: t}
	case 4:
		if p.accept("(") {
			e := p.expr()
			p.expect(")")
			return e
		}
	}
	p.fail("unexpected token %q at %d in %q", p.l.tok, p.l.pos, p.l.src)
	return &SExpr{Op: "bool", Val: "true"}
}

// smtString renders a Go string as an SMT-LIB string literal.
func smtString(s string) string {
	var b strings.Builder
	b.WriteByte('"')
	for i := 0; i < len(s); i++ {
		c := s[i]
		switch {
		case c == '"':
			b.WriteString("\"\"")
		case c >= 0x20 && c < 0x7f && c != '\\':
			b.WriteByte(c)
		default:
			fmt.Fprintf(&b, "\\u{%x}", c)
		}
	}
	b.WriteByte('"')
	return b.String()
}

// ---- ground instances of assumed quantified clauses ---------------------------------------
//
// When a universally quantified clause is *assumed* (a precondition at entry, an invariant
// at a loop header, a callee's postcondition), its instance at index 0 is a sound consequence.
// Adding it explicitly spares the solver an instantiation for which no ground trigger term
// exists (e.g. "errs[0] != nil" from "forall k :: errs[k] != nil").

func substZero(x *SExpr, names map[string]bool) *SExpr {
	if x == nil {
		return nil
	}
	if x.Op == "id" && names[x.Val] {
		return &SExpr{Op: "int", Val: "0"}
	}
	n := &SExpr{Op: x.Op, Val: x.Val, Binders: x.Binders, Pos: x.Pos}
	inner := names
	if x.Op == "forall" || x.Op == "exists" {
		inner = map[string]bool{}
		for k, v := range names {
			inner[k] = v
		}
		for _, b := range x.Binders {
			delete(inner, b.Name)
		}
	}
	for _, a := range x.Args {
		n.Args = append(n.Args, substZero(a, inner))
	}
	return n
}

func intBinders(bs []Binder) (map[string]bool, bool) {
	m := map[string]bool{}
	for _, b := range bs {
		if b.Type != "int" {
			return nil, false
		}
		m[b.Name] = true
	}
	return m, true
}

// zeroInstances returns sound ground consequences of an assumed clause.
func zeroInstances(x *SExpr) []*SExpr {
	switch {
	case x.Op == "forall":
		if m, ok := intBinders(x.Binders); ok {
			return []*SExpr{substZero(x.Args[0], m)}
		}
	case x.Op == "bin" && x.Val == "&&":
		return append(zeroInstances(x.Args[0]), zeroInstances(x.Args[1])...)
	case x.Op == "bin" && x.Val == "==>":
		var out []*SExpr
		for _, q := range zeroInstances(x.Args[1]) {
			out = append(out, &SExpr{Op: "bin", Val: "==>", Args: []*SExpr{x.Args[0], q}})
		}
		if p := x.Args[0]; p.Op == "exists" {
			if m, ok := intBinders(p.Binders); ok {
				out = append(out, &SExpr{Op: "bin", Val: "==>", Args: []*SExpr{substZero(p.Args[0], m), x.Args[1]}})
			}
		}
		return out
	}
	return nil
}
