package engine

import (
	"fmt"
	"go/constant"
	"go/token"
	"go/types"
	"sort"
	"strings"

	"golang.org/x/tools/go/ssa"
)

// ---- values, locations, state -------------------------------------------------

type Val struct {
	Term string
	Sort string
	Type types.Type
	Loc  *Loc  // static pointer (to a local cell, a heap field, a slice element, a global)
	Tup  []Val // tuple
	Fn   *FnVal
	Orig *Loc // for loaded slice values: where they were loaded from
	Rune *runeSrc // provenance of a []rune value: the characters [Lo,Hi) of string S
	// FnAlts: a function value that is one of several statically known closures, each under
	// the path condition that selected it (a variable assigned different closures on
	// different branches); a call through it is a case split over the alternatives
	FnAlts []FnAlt
}

type FnAlt struct {
	Guard string
	Fn    *FnVal
}

type runeSrc struct{ S, Lo, Hi string }

type FnVal struct {
	Fn       *ssa.Function
	Bindings []Val
}

const (
	LCell = iota
	LField
	LHeapField
	LHeapCell
	LSliceElem
	LArrayElem
	LGlobal
)

type Loc struct {
	Kind   int
	Cell   *ssa.Alloc
	Base   *Loc
	Field  int
	Struct types.Type // struct type (named) owning Field
	Ptr    string     // heap pointer term
	Slice  Val
	Idx    string
	Global *ssa.Global
	Elem   types.Type
}

type State struct {
	iters   map[*ssa.Range]string // ghost "visited" set of each map iterator
	cells   map[*ssa.Alloc]Val
	heaps   map[string]string // heap name -> current array term
	globals map[*ssa.Global]Val
	nxt     string
}

func (s *State) clone() *State {
	n := &State{iters: map[*ssa.Range]string{}, cells: make(map[*ssa.Alloc]Val, len(s.cells)), heaps: make(map[string]string, len(s.heaps)),
		globals: make(map[*ssa.Global]Val, len(s.globals)), nxt: s.nxt}
	for k, v := range s.cells {
		n.cells[k] = v
	}
	for k, v := range s.heaps {
		n.heaps[k] = v
	}
	for k, v := range s.globals {
		n.globals[k] = v
	}
	for k, v := range s.iters {
		n.iters[k] = v
	}
	return n
}

// ---- script -----------------------------------------------------------------

type Obligation struct {
	Name     string
	Kind     string
	Func     string
	Text     string // source-ish text of what is checked
	Pos      string
	Reach    string
	Cond     string
	Index    int // position in script
	Status   string
	Backend  string
	TimeS    float64
	Model    string
	Output   string
	Static   bool // decided without the solver (trivially true condition)
	FailNote string
	Second   string // thorough tier: what independent back ends said about the stand-alone query
}

type item struct {
	kind int // 0 decl/assert text, 1 obligation
	text string
	ob   *Obligation
}

type run struct {
	curCall *ssa.CallCommon
	dynCalls []DynCall
	eng      *Engine
	root     *ssa.Function
	rootName string
	items    []item
	n        int
	obls     []*Obligation
	counters map[string]int
	assumed  map[string]bool // assumed contracts / defaults used
	stack    []*ssa.Function
	heapSort map[string]string
	errs     []string
	entry    *State
	nxt0     string
	globDecl map[*ssa.Global]string
	usedCtr  map[string]bool
	force    []string
	inlined  map[string]bool
	depthCap int
	sentinels []*ssa.Global
	usedLemmas []string
	pendingCaps map[string]SVal // captured variables of the contracted closure about to be applied
}

type execError struct{ msg string }

func (r *run) unsupported(f string, a ...any) {
	panic(execError{fmt.Sprintf(f, a...)})
}

func (r *run) emit(text string) { r.items = append(r.items, item{text: text}) }

func (r *run) fresh(prefix, sort string) string {
	r.n++
	name := fmt.Sprintf("%s!%d", prefix, r.n)
	r.emit(fmt.Sprintf("(declare-const %s %s)", name, sort))
	return name
}

func (r *run) assume(reach, cond string) {
	if cond == "true" {
		return
	}
	if reach == "true" {
		r.emit(fmt.Sprintf("(assert %s)", cond))
	} else {
		r.emit(fmt.Sprintf("(assert (=> %s %s))", reach, cond))
	}
}

func (r *run) oblige(fname, kind, reach, cond, text string, pos token.Pos) *Obligation {
	key := fname + "#" + kind
	r.counters[key]++
	name := fmt.Sprintf("%s#%s.%d", fname, kind, r.counters[key])
	if fname != r.rootName {
		name = r.rootName + "/" + name
	}
	ob := &Obligation{Name: name, Kind: kind, Func: fname, Text: text, Reach: reach, Cond: cond}
	if pos.IsValid() {
		p := r.eng.Prog.Fset.Position(pos)
		ob.Pos = fmt.Sprintf("%s:%d", strings.TrimPrefix(p.Filename, r.eng.RepoDir+"/"), p.Line)
	}
	if cond == "true" || reach == "false" {
		ob.Static = true
		ob.Status = "discharged"
		ob.Backend = "trivial"
	}
	ob.Index = len(r.items)
	r.items = append(r.items, item{kind: 1, ob: ob})
	r.obls = append(r.obls, ob)
	// assert-then-assume (nothing follows a back edge or the final postconditions, so
	// their facts would only burden later queries)
	switch kind {
	case "invariant-preserved", "decreases", "ensures", "ensures.fresh", "lemma":
	default:
		r.assume(reach, cond)
	}
	return ob
}

func and(a ...string) string {
	var out []string
	for _, x := range a {
		if x == "true" || x == "" {
			continue
		}
		if x == "false" {
			return "false"
		}
		out = append(out, x)
	}
	switch len(out) {
	case 0:
		return "true"
	case 1:
		return out[0]
	}
	return "(and " + strings.Join(out, " ") + ")"
}

func or(a ...string) string {
	var out []string
	for _, x := range a {
		if x == "false" || x == "" {
			continue
		}
		if x == "true" {
			return "true"
		}
		out = append(out, x)
	}
	switch len(out) {
	case 0:
		return "false"
	case 1:
		return out[0]
	}
	return "(or " + strings.Join(out, " ") + ")"
}

func not(a string) string {
	switch a {
	case "true":
		return "false"
	case "false":
		return "true"
	}
	if strings.HasPrefix(a, "(not ") && strings.HasSuffix(a, ")") && balanced(a[5:len(a)-1]) {
		return a[5 : len(a)-1]
	}
	return "(not " + a + ")"
}

func balanced(s string) bool {
	d := 0
	for i := 0; i < len(s); i++ {
		if s[i] == '(' {
			d++
		}
		if s[i] == ')' {
			d--
			if d < 0 {
				return false
			}
			if d == 0 && i != len(s)-1 {
				return false
			}
		}
	}
	return d == 0
}

func app(op string, args ...string) string {
	return "(" + op + " " + strings.Join(args, " ") + ")"
}

// ---- zero values, ranges ------------------------------------------------------

func (r *run) zero(t types.Type) Val {
	so := r.eng.Sorts.SortOf(t)
	v := Val{Sort: so, Type: t}
	switch {
	case so == "Int" || so == "Err":
		v.Term = "0"
	case so == "Bool":
		v.Term = "false"
	case so == "String":
		v.Term = "\"\""
	case so == "Real":
		v.Term = "0.0"
	case so == "Any":
		v.Term = "nil_any"
	case strings.HasPrefix(so, "Slice_"):
		v.Term = r.nilSlice(so)
	case strings.HasPrefix(so, "S_"):
		si := r.eng.Sorts.StructInfo(so)
		if len(si.fields) == 0 {
			v.Term = fmt.Sprintf("(mk_%s 0)", so)
			break
		}
		var parts []string
		for i := 0; i < si.gotype.NumFields(); i++ {
			parts = append(parts, r.zero(si.gotype.Field(i).Type()).Term)
		}
		v.Term = fmt.Sprintf("(mk_%s %s)", so, strings.Join(parts, " "))
	case strings.HasPrefix(so, "(Array"):
		es := strings.TrimSuffix(strings.TrimPrefix(so, "(Array Int "), ")")
		a := t.Underlying().(*types.Array)
		v.Term = fmt.Sprintf("((as const %s) %s)", so, r.zero(a.Elem()).Term)
		_ = es
	default: // uninterpreted sort
		v.Term = "zero_" + so
	}
	return v
}

func (r *run) nilSlice(so string) string {
	m := strings.TrimPrefix(so, "Slice_")
	return fmt.Sprintf("(mk_%s emptyarr_%s 0 0 true false)", so, m)
}

// typeFacts returns the typing facts (integer ranges, slice shape) of a term of Go type t.
func (r *run) typeFacts(t types.Type, term string) string {
	if t == nil {
		return "true"
	}
	if lo, hi, ok := intRange(t); ok {
		return fmt.Sprintf("(and (<= %s %s) (<= %s %s))", lo, term, term, hi)
	}
	so := r.eng.Sorts.SortOf(t)
	if so == "Any" {
		// a value of a non-empty interface type is nil or of a dynamic type implementing it
		if it, ok := t.Underlying().(*types.Interface); ok && it.NumMethods() > 0 {
			return fmt.Sprintf("(or ((_ is nil_any) %s) %s)", term, r.eng.Sorts.Implements(it, shortName(t), term))
		}
		return "true"
	}
	if strings.HasPrefix(so, "Slice_") {
		m := strings.TrimPrefix(so, "Slice_")
		return fmt.Sprintf("(and (<= 0 (len_%s %s)) (<= (len_%s %s) (cap_%s %s)) (<= (cap_%s %s) 9223372036854775807) (=> (not (nn_%s %s)) (= (cap_%s %s) 0)))", m, term, m, term, m, term, m, term, m, term, m, term)
	}
	if so == "Int" {
		switch t.Underlying().(type) {
		case *types.Pointer, *types.Map, *types.Signature, *types.Chan:
			return fmt.Sprintf("(<= 0 %s)", term)
		}
	}
	if so == "Err" {
		return fmt.Sprintf("(<= 0 %s)", term)
	}
	if so == "String" {
		// no string is longer than 2^62 bytes (address space): lets index arithmetic such as
		// at+4 stay clear of int64 wrap-around (listed as an assumption of the encoding)
		return fmt.Sprintf("(<= (str.len %s) 4611686018427387904)", term)
	}
	if strings.HasPrefix(so, "S_") {
		si := r.eng.Sorts.StructInfo(so)
		var parts []string
		for i := 0; i < si.gotype.NumFields(); i++ {
			f := r.typeFacts(si.gotype.Field(i).Type(), fmt.Sprintf("(%s %s)", si.fields[i], term))
			parts = append(parts, f)
		}
		return and(parts...)
	}
	return "true"
}

// symbolic creates a fresh, well-typed symbolic value.
func (r *run) symbolic(prefix string, t types.Type) Val {
	if tup, ok := t.(*types.Tuple); ok {
		v := Val{Type: t, Sort: "TUPLE"}
		for i := 0; i < tup.Len(); i++ {
			v.Tup = append(v.Tup, r.symbolic(fmt.Sprintf("%s_%d", prefix, i), tup.At(i).Type()))
		}
		return v
	}
	so := r.eng.Sorts.SortOf(t)
	c := r.fresh(prefix, so)
	r.assume("true", r.typeFacts(t, c))
	return Val{Term: c, Sort: so, Type: t}
}

// ---- heaps -------------------------------------------------------------------

func (r *run) heapName(st types.Type, field int) (string, string, types.Type) {
	s := st.Underlying().(*types.Struct)
	f := s.Field(field)
	name := "H_" + mangle(shortName(st)) + "_" + f.Name()
	fs := r.eng.Sorts.SortOf(f.Type())
	r.heapSort[name] = fs
	return name, fs, f.Type()
}

func (r *run) heapGet(st *State, name string) string {
	if h, ok := st.heaps[name]; ok {
		return h
	}
	// initial heap: one constant per heap name, shared by every state of the run
	c := "init_" + name
	if !r.usedCtr["heap:"+name] {
		r.usedCtr["heap:"+name] = true
		r.emit(fmt.Sprintf("(declare-const %s (Array Int %s))", c, r.heapSort[name]))
		// a ghost variable x with a declared companion x0: x0 is the value of x at entry of
		// the activation under verification (nothing ever assigns x0 by name)
		if strings.HasPrefix(name, "GHOST_") {
			partner := name + "0"
			if strings.HasSuffix(name, "0") {
				partner = strings.TrimSuffix(name, "0")
			}
			if _, ok := r.heapSort[partner]; ok && partner != name {
				if !r.usedCtr["heap:"+partner] {
					r.usedCtr["heap:"+partner] = true
					r.emit(fmt.Sprintf("(declare-const init_%s (Array Int %s))", partner, r.heapSort[partner]))
				}
				r.emit(fmt.Sprintf("(assert (= (select init_%s 0) (select init_%s 0)))", name, partner))
			}
		}
	}
	return c
}

// ---- loads and stores ----------------------------------------------------------

func (r *run) load(st *State, l *Loc, reach string) Val {
	switch l.Kind {
	case LCell:
		v, ok := st.cells[l.Cell]
		if !ok {
			r.unsupported("load of unset cell %s", l.Cell.Name())
		}
		if v.Loc == nil && v.Fn == nil && v.Tup == nil {
			v.Orig = l
		}
		return v
	case LField:
		base := r.load(st, l.Base, reach)
		si := r.eng.Sorts.StructInfo(base.Sort)
		if si == nil {
			r.unsupported("field load on non-struct sort %s", base.Sort)
		}
		ft := si.gotype.Field(l.Field).Type()
		v := Val{Term: fmt.Sprintf("(%s %s)", si.fields[l.Field], base.Term), Sort: si.fsorts[l.Field], Type: ft, Orig: l}
		return v
	case LHeapField:
		name, fs, ft := r.heapName(l.Struct, l.Field)
		h := r.heapGet(st, name)
		v := Val{Term: fmt.Sprintf("(select %s %s)", h, l.Ptr), Sort: fs, Type: ft, Orig: l}
		r.assume("true", r.typeFacts(ft, v.Term))
		r.refFact(st, ft, v.Term)
		return v
	case LHeapCell:
		name := "HC_" + mangle(r.eng.Sorts.SortOf(l.Elem))
		r.heapSort[name] = r.eng.Sorts.SortOf(l.Elem)
		h := r.heapGet(st, name)
		v := Val{Term: fmt.Sprintf("(select %s %s)", h, l.Ptr), Sort: r.heapSort[name], Type: l.Elem, Orig: l}
		r.assume("true", r.typeFacts(l.Elem, v.Term))
		return v
	case LSliceElem:
		m := strings.TrimPrefix(l.Slice.Sort, "Slice_")
		v := Val{Term: fmt.Sprintf("(select (arr_%s %s) %s)", m, l.Slice.Term, l.Idx), Sort: r.eng.Sorts.slices[l.Slice.Sort], Type: l.Elem}
		r.assume("true", r.typeFacts(l.Elem, v.Term))
		r.refFact(st, l.Elem, v.Term)
		return v
	case LArrayElem:
		base := r.load(st, l.Base, reach)
		v := Val{Term: fmt.Sprintf("(select %s %s)", base.Term, l.Idx), Sort: r.eng.Sorts.SortOf(l.Elem), Type: l.Elem}
		r.assume("true", r.typeFacts(l.Elem, v.Term))
		return v
	case LGlobal:
		if v, ok := st.globals[l.Global]; ok {
			return v
		}
		return r.globalInit(l.Global)
	}
	r.unsupported("load kind %d", l.Kind)
	return Val{}
}

// refFact: every reference held in the state was allocated before now.
func (r *run) refFact(st *State, t types.Type, term string) {
	if t == nil {
		return
	}
	switch t.Underlying().(type) {
	case *types.Pointer, *types.Map:
		r.assume("true", fmt.Sprintf("(< %s %s)", term, st.nxt))
	}
}

func (r *run) globalInit(g *ssa.Global) Val {
	et := g.Type().(*types.Pointer).Elem()
	name := "g_" + mangle(g.Pkg.Pkg.Name()+"."+g.Name())
	so := r.eng.Sorts.SortOf(et)
	if _, ok := r.globDecl[g]; !ok {
		r.globDecl[g] = name
		isErrSentinel := false
		for _, eg := range r.eng.ErrGlobs {
			if eg == g {
				isErrSentinel = true
			}
		}
		if !isErrSentinel { // sentinels are declared in the preamble
			r.emit(fmt.Sprintf("(declare-const %s %s)", name, so))
			if g.Name() == "init$guard" {
				r.assume("true", fmt.Sprintf("(not %s)", name)) // the initialiser runs once
			}
			r.assume("true", r.typeFacts(et, name))
			if _, isPtr := et.Underlying().(*types.Pointer); isPtr {
				r.assume("true", fmt.Sprintf("(< %s %s)", name, r.nxt0))
			}
			if _, isMap := et.Underlying().(*types.Map); isMap {
				r.assume("true", fmt.Sprintf("(and (< 0 %s) (< %s %s))", name, name, r.nxt0))
			}
		}
	}
	return Val{Term: name, Sort: so, Type: et}
}

func (r *run) updateField(base Val, field int, v Val) Val {
	si := r.eng.Sorts.StructInfo(base.Sort)
	var parts []string
	for i := range si.fields {
		if i == field {
			parts = append(parts, v.Term)
		} else {
			parts = append(parts, fmt.Sprintf("(%s %s)", si.fields[i], base.Term))
		}
	}
	return Val{Term: fmt.Sprintf("(mk_%s %s)", base.Sort, strings.Join(parts, " ")), Sort: base.Sort, Type: base.Type}
}

func (r *run) store(fr *frame, st *State, l *Loc, v Val, reach string, pos token.Pos) {
	switch l.Kind {
	case LCell:
		v.Orig = nil
		if v.Term != "" && v.Loc == nil && v.Tup == nil {
			v.Term = r.share(v.Term, v.Sort)
		}
		st.cells[l.Cell] = v
	case LField:
		base := r.load(st, l.Base, reach)
		r.store(fr, st, l.Base, r.updateField(base, l.Field, v), reach, pos)
	case LHeapField:
		name, _, _ := r.heapName(l.Struct, l.Field)
		h := r.heapGet(st, name)
		r.frameOblige(fr, st, "frame.store", reach, l, pos)
		st.heaps[name] = r.share(fmt.Sprintf("(store %s %s %s)", h, l.Ptr, v.Term), "(Array Int "+r.heapSort[name]+")")
	case LHeapCell:
		name := "HC_" + mangle(r.eng.Sorts.SortOf(l.Elem))
		r.heapSort[name] = r.eng.Sorts.SortOf(l.Elem)
		h := r.heapGet(st, name)
		r.frameOblige(fr, st, "frame.store", reach, l, pos)
		st.heaps[name] = fmt.Sprintf("(store %s %s %s)", h, l.Ptr, v.Term)
	case LSliceElem:
		if l.Slice.Orig == nil {
			r.unsupported("store through a slice element whose slice has no known origin")
		}
		m := strings.TrimPrefix(l.Slice.Sort, "Slice_")
		s := l.Slice.Term
		// writing into a slice that this activation does not own mutates caller-visible memory
		r.oblige(fr.name, "frame.elem-store", reach, fmt.Sprintf("(own_%s %s)", m, s), "element store into a slice not owned by this activation", pos)
		ns := fmt.Sprintf("(mk_%s (store (arr_%s %s) %s %s) (len_%s %s) (cap_%s %s) (own_%s %s) (nn_%s %s))", l.Slice.Sort, m, s, l.Idx, v.Term, m, s, m, s, m, s, m, s)
		r.store(fr, st, l.Slice.Orig, Val{Term: ns, Sort: l.Slice.Sort, Type: l.Slice.Type}, reach, pos)
	case LArrayElem:
		base := r.load(st, l.Base, reach)
		r.store(fr, st, l.Base, Val{Term: fmt.Sprintf("(store %s %s %s)", base.Term, l.Idx, v.Term), Sort: base.Sort, Type: base.Type}, reach, pos)
	case LGlobal:
		if fr.fn.Name() != "init" {
			r.oblige(fr.name, "frame.global-store", reach, "false", "store to package-level variable "+l.Global.Name(), pos)
		}
		st.globals[l.Global] = v
	default:
		r.unsupported("store kind %d", l.Kind)
	}
}

// frameOblige: a heap store must target an object allocated by this activation, or a
// location the contract's assigns clause names.
func (r *run) frameOblige(fr *frame, st *State, kind, reach string, l *Loc, pos token.Pos) {
	if fr.root == nil {
		return
	}
	top := fr.root
	cond := fmt.Sprintf("(>= %s %s)", l.Ptr, r.nxt0)
	if top.contract != nil {
		for _, a := range top.contract.Assigns {
			// forms: p.f  (pointer-typed parameter p, field f)
			parts := strings.Split(a, ".")
			if len(parts) == 2 && l.Kind == LHeapField {
				f := l.Struct.Underlying().(*types.Struct).Field(l.Field).Name()
				if pv, ok := top.params[parts[0]]; ok && f == parts[1] {
					cond = or(cond, fmt.Sprintf("(= %s %s)", l.Ptr, pv.Term))
				}
			}
			if a == "*" {
				cond = "true"
			}
		}
	}
	if top.contract == nil || !top.contract.AssignsSet {
		// no frame claimed: stores are unconstrained
		return
	}
	r.oblige(fr.name, kind, reach, cond, "heap store outside this activation's fresh objects and the assigns clause", pos)
}

// ---- frames ------------------------------------------------------------------

type frame struct {
	fn       *ssa.Function
	name     string
	vals     map[ssa.Value]Val
	contract *Contract
	params   map[string]Val // entry values by contract/source name
	root     *frame
	depth    int
	rets     []retInfo
	resNames []string
	loops    map[*ssa.BasicBlock]*loopInfo
	ensMode  bool
	lets     map[string]SVal
}

type retInfo struct {
	reach string
	vals  []Val
	st    *State
}

type loopInfo struct {
	header   *ssa.BasicBlock
	ordinal  int
	body     map[*ssa.BasicBlock]bool
	backs    []*ssa.BasicBlock
	spec     *LoopSpec
	idxCell  *ssa.Alloc
	idxBound ssa.Value
	cntEntry string     // value of the counter at loop entry (when it is an integer literal)
	cntCell  *ssa.Alloc // counting loop `for c := e0; c < X; c++`: the counter (stored once in the loop, c = c + 1, guarded by c < X)
	measure  string     // decreases term at header
	hreach   string
	extra    map[string]Val
	iter     *ssa.Range
}

func constVal(r *run, c *ssa.Const) Val {
	t := c.Type()
	so := r.eng.Sorts.SortOf(t)
	v := Val{Sort: so, Type: t}
	if c.Value == nil {
		return r.zero(t)
	}
	switch c.Value.Kind() {
	case constant.Bool:
		v.Term = fmt.Sprint(constant.BoolVal(c.Value))
	case constant.String:
		v.Term = smtString(constant.StringVal(c.Value))
	case constant.Int:
		if so == "Real" {
			v.Term = smtReal(c.Value)
		} else {
			v.Term = smtInt(c.Value.ExactString())
		}
	case constant.Float:
		if so == "Int" {
			v.Term = smtInt(constant.ToInt(c.Value).ExactString())
		} else {
			v.Term = smtReal(c.Value)
		}
	default:
		r.unsupported("constant kind %v", c.Value.Kind())
	}
	return v
}

func smtInt(s string) string {
	if strings.HasPrefix(s, "-") {
		return "(- " + s[1:] + ")"
	}
	return s
}

func smtReal(c constant.Value) string {
	num := constant.Num(c)
	den := constant.Denom(c)
	if num.Kind() != constant.Int {
		f, _ := constant.Float64Val(c)
		return fmt.Sprintf("%f", f)
	}
	ns := num.ExactString()
	neg := strings.HasPrefix(ns, "-")
	ns = strings.TrimPrefix(ns, "-")
	s := fmt.Sprintf("(/ %s.0 %s.0)", ns, den.ExactString())
	if den.ExactString() == "1" {
		s = ns + ".0"
	}
	if neg {
		s = "(- " + s + ")"
	}
	return s
}

func (r *run) val(fr *frame, st *State, v ssa.Value) Val {
	switch x := v.(type) {
	case *ssa.Const:
		return constVal(r, x)
	case *ssa.Global:
		return Val{Loc: &Loc{Kind: LGlobal, Global: x}, Type: x.Type()}
	case *ssa.Function:
		return Val{Fn: &FnVal{Fn: x}, Type: x.Type(), Term: r.fnTerm(x), Sort: "Int"}
	case *ssa.Builtin:
		return Val{Type: x.Type()}
	}
	if val, ok := fr.vals[v]; ok {
		return val
	}
	r.unsupported("use of undefined SSA value %s (%T) in %s", v.Name(), v, fr.fn.Name())
	return Val{}
}

func (r *run) fnTerm(f *ssa.Function) string {
	name := "fn_" + mangle(FuncDisplayName(f))
	if !r.usedCtr["fn:"+name] {
		r.usedCtr["fn:"+name] = true
		r.emit(fmt.Sprintf("(define-fun %s () Int %d)", name, 1000000+r.eng.FuncIndex(f)))
	}
	return name
}

// ---- function execution -------------------------------------------------------

type inEdge struct {
	cond string
	st   *State
	from *ssa.BasicBlock
}

func (r *run) analyzeLoops(fr *frame) {
	fn := fr.fn
	fr.loops = map[*ssa.BasicBlock]*loopInfo{}
	for _, b := range fn.Blocks {
		for _, s := range b.Succs {
			if s.Dominates(b) {
				li := fr.loops[s]
				if li == nil {
					li = &loopInfo{header: s, body: map[*ssa.BasicBlock]bool{s: true}}
					fr.loops[s] = li
				}
				li.backs = append(li.backs, b)
				// natural loop body: nodes reaching b without passing through s
				var stack []*ssa.BasicBlock
				if !li.body[b] {
					li.body[b] = true
					stack = append(stack, b)
				}
				for len(stack) > 0 {
					x := stack[len(stack)-1]
					stack = stack[:len(stack)-1]
					for _, p := range x.Preds {
						if !li.body[p] {
							li.body[p] = true
							stack = append(stack, p)
						}
					}
				}
			}
		}
	}
	var hs []*ssa.BasicBlock
	for h := range fr.loops {
		hs = append(hs, h)
	}
	sort.Slice(hs, func(i, j int) bool { return hs[i].Index < hs[j].Index })
	for i, h := range hs {
		li := fr.loops[h]
		li.ordinal = i + 1
		if fr.contract != nil {
			li.spec = fr.contract.Loops[li.ordinal]
		}
		if h.Comment != "rangeindex.loop" {
			li.cntCell = countingCell(li)
		}
		if h.Comment == "rangeindex.loop" {
			// t8 = *ri; t9 = t8+1; *ri = t9; t10 = t9 < n; if t10
			if len(h.Instrs) >= 5 {
				if u, ok := h.Instrs[0].(*ssa.UnOp); ok && u.Op == token.MUL {
					if a, ok := u.X.(*ssa.Alloc); ok {
						li.idxCell = a
					}
				}
				if cmp, ok := h.Instrs[len(h.Instrs)-2].(*ssa.BinOp); ok && cmp.Op == token.LSS {
					li.idxBound = cmp.Y
				}
			}
		}
	}
}

// countingCell recognises `for c := e0; c < X; c++` (also with `continue`/`break`/`return` in
// the body): the header ends in `if c < X`, and the only store to c inside the loop is
// c = c + 1. Since the increment happens after c < X held, it cannot wrap, so c never drops
// below its value at loop entry.
func countingCell(li *loopInfo) *ssa.Alloc {
	h := li.header
	if len(h.Instrs) < 2 {
		return nil
	}
	iff, ok := h.Instrs[len(h.Instrs)-1].(*ssa.If)
	if !ok {
		return nil
	}
	cmp, ok := iff.Cond.(*ssa.BinOp)
	if !ok || cmp.Op != token.LSS {
		return nil
	}
	ld, ok := cmp.X.(*ssa.UnOp)
	if !ok || ld.Op != token.MUL {
		return nil
	}
	cell, ok := ld.X.(*ssa.Alloc)
	if !ok || cell.Heap {
		return nil
	}
	if b, ok := cell.Type().Underlying().(*types.Pointer).Elem().Underlying().(*types.Basic); !ok || b.Info()&types.IsInteger == 0 {
		return nil
	}
	// the true branch must be the loop body (the false branch leaves the loop)
	if len(h.Succs) != 2 || !li.body[h.Succs[0]] || li.body[h.Succs[1]] {
		return nil
	}
	stores := 0
	good := false
	for b := range li.body {
		for _, in := range b.Instrs {
			st, ok := in.(*ssa.Store)
			if !ok || st.Addr != cell {
				continue
			}
			stores++
			if add, ok := st.Val.(*ssa.BinOp); ok && add.Op == token.ADD {
				if l, ok := add.X.(*ssa.UnOp); ok && l.Op == token.MUL && l.X == cell {
					if c, ok := add.Y.(*ssa.Const); ok && c.Value != nil && c.Value.ExactString() == "1" {
						good = true
					}
				}
			}
		}
	}
	// the address of the counter must not escape to anything but loads and stores
	for _, ref := range *cell.Referrers() {
		switch x := ref.(type) {
		case *ssa.Store:
			if x.Addr != cell {
				return nil
			}
		case *ssa.UnOp:
		case *ssa.DebugRef:
		default:
			return nil
		}
	}
	if stores == 1 && good {
		return cell
	}
	return nil
}

func rpo(fn *ssa.Function, isBack func(from, to *ssa.BasicBlock) bool) []*ssa.BasicBlock {
	seen := map[*ssa.BasicBlock]bool{}
	var post []*ssa.BasicBlock
	var dfs func(b *ssa.BasicBlock)
	dfs = func(b *ssa.BasicBlock) {
		seen[b] = true
		for _, s := range b.Succs {
			if !seen[s] && !isBack(b, s) {
				dfs(s)
			}
		}
		post = append(post, b)
	}
	dfs(fn.Blocks[0])
	for i, j := 0, len(post)-1; i < j; i, j = i+1, j-1 {
		post[i], post[j] = post[j], post[i]
	}
	return post
}

// rootOf follows address computations to the storage root.
func rootOf(v ssa.Value) ssa.Value {
	for {
		switch x := v.(type) {
		case *ssa.FieldAddr:
			v = x.X
		case *ssa.IndexAddr:
			v = x.X
		case *ssa.UnOp:
			if x.Op == token.MUL {
				// slice value loaded from a cell: stores through its elements write back
				if _, isSlice := x.Type().Underlying().(*types.Slice); isSlice {
					v = x.X
					continue
				}
			}
			return v
		default:
			return v
		}
	}
}

type effects struct {
	cells   map[*ssa.Alloc]bool
	heaps   map[string]bool // heap names; "*" = everything
	globals map[*ssa.Global]bool
}

func (r *run) storeEffects(fr *frame, blocks map[*ssa.BasicBlock]bool, all bool, fn *ssa.Function, eff *effects, depth int) {
	for _, b := range fn.Blocks {
		if !all && !blocks[b] {
			continue
		}
		for _, in := range b.Instrs {
			switch x := in.(type) {
			case *ssa.Store:
				r.addrEffect(x.Addr, eff)
			case *ssa.MapUpdate:
				eff.heaps["MAP"] = true
			case ssa.CallInstruction:
				r.callEffects(fr, x.Common(), eff, depth)
			}
		}
	}
}

func (r *run) addrEffect(addr ssa.Value, eff *effects) {
	root := rootOf(addr)
	switch a := root.(type) {
	case *ssa.Alloc:
		if !a.Heap {
			eff.cells[a] = true
			return
		}
	case *ssa.Global:
		eff.globals[a] = true
		return
	}
	// heap store: which field?
	switch fa := addr.(type) {
	case *ssa.FieldAddr:
		st := fa.X.Type().Underlying().(*types.Pointer).Elem()
		// nested struct fields inside a heap struct are not flattened: treat the outermost
		name, _, _ := r.heapName(st, fa.Field)
		eff.heaps[name] = true
	default:
		if p, ok := addr.Type().Underlying().(*types.Pointer); ok {
			name := "HC_" + mangle(r.eng.Sorts.SortOf(p.Elem()))
			r.heapSort[name] = r.eng.Sorts.SortOf(p.Elem())
			eff.heaps[name] = true
		}
	}
}

func (r *run) callEffects(fr *frame, c *ssa.CallCommon, eff *effects, depth int) {
	callee := c.StaticCallee()
	if callee == nil {
		// dynamic/interface call: governed by its contract's assigns clause
		if ct := r.dynContract(c); ct != nil {
			r.contractEffects(ct, eff)
		}
		return
	}
	if ct := r.eng.Contracts[callee.String()]; ct != nil && !ct.Inline {
		r.contractEffects(ct, eff)
		return
	}
	if r.canInline(callee) && depth < 4 {
		r.storeEffects(fr, nil, true, callee, eff, depth+1)
	}
}

func (r *run) contractEffects(ct *Contract, eff *effects) {
	for _, a := range ct.Assigns {
		if a == "*" {
			eff.heaps["*"] = true
			continue
		}
		if strings.HasPrefix(a, "ghost:") {
			g := strings.TrimPrefix(a, "ghost:")
			if _, ok := r.eng.Prelude.Ghosts[g]; !ok {
				r.unsupported("assigns %s: no such ghost variable", a)
			}
			eff.heaps["GHOST_"+g] = true
			continue
		}
		parts := strings.Split(a, ".")
		if len(parts) == 2 {
			eff.heaps["FIELD:"+parts[1]] = true
		}
	}
}

func (r *run) canInline(callee *ssa.Function) bool {
	if callee.Blocks == nil {
		return false
	}
	pk := callee.Pkg
	if pk == nil && callee.Origin() != nil {
		pk = callee.Origin().Pkg
	}
	if pk == nil || !inRepo(pk.Pkg) {
		return false
	}
	for _, f := range r.stack {
		if f == callee {
			return false
		}
	}
	return len(r.stack) < r.depthCap
}

func (r *run) mergeVals(ins []inEdge, vals []Val, prefix string) Val {
	first := vals[0]
	same := true
	for _, v := range vals[1:] {
		if v.Term != first.Term || v.Loc != first.Loc || len(v.Tup) != len(first.Tup) {
			same = false
		}
	}
	if same && first.Tup == nil {
		return first
	}
	if first.Loc != nil || first.Fn != nil && first.Term == "" {
		r.unsupported("merge of distinct static pointers")
	}
	if first.Tup != nil {
		out := Val{Sort: "TUPLE", Type: first.Type}
		for i := range first.Tup {
			var col []Val
			for _, v := range vals {
				col = append(col, v.Tup[i])
			}
			out.Tup = append(out.Tup, r.mergeVals(ins, col, prefix))
		}
		return out
	}
	c := r.fresh(prefix, first.Sort)
	for i, v := range vals {
		if v.Sort != first.Sort {
			r.unsupported("merge of different sorts %s vs %s", v.Sort, first.Sort)
		}
		r.assume(ins[i].cond, fmt.Sprintf("(= %s %s)", c, v.Term))
	}
	out := Val{Term: c, Sort: first.Sort, Type: first.Type}
	allFn := true
	for _, v := range vals {
		if (v.Fn == nil || v.Fn.Fn == nil) && len(v.FnAlts) == 0 {
			allFn = false
		}
	}
	if allFn {
		for i, v := range vals {
			if v.Fn != nil && v.Fn.Fn != nil {
				out.FnAlts = append(out.FnAlts, FnAlt{Guard: ins[i].cond, Fn: v.Fn})
			}
			for _, a := range v.FnAlts {
				out.FnAlts = append(out.FnAlts, FnAlt{Guard: and(ins[i].cond, a.Guard), Fn: a.Fn})
			}
		}
	}
	// keep Orig if all agree
	o := first.Orig
	for _, v := range vals[1:] {
		if v.Orig != o {
			o = nil
		}
	}
	out.Orig = o
	return out
}

func (r *run) mergeStates(ins []inEdge) (*State, string) {
	if len(ins) == 1 {
		return ins[0].st, ins[0].cond
	}
	var conds []string
	for _, e := range ins {
		conds = append(conds, e.cond)
	}
	reach := or(conds...)
	if len(reach) > 40 {
		c := r.fresh("reach", "Bool")
		r.emit(fmt.Sprintf("(assert (= %s %s))", c, reach))
		reach = c
	}
	out := &State{iters: map[*ssa.Range]string{}, cells: map[*ssa.Alloc]Val{}, heaps: map[string]string{}, globals: map[*ssa.Global]Val{}}
	for it := range ins[0].st.iters {
		var vs []Val
		ok := true
		for _, e := range ins {
			v, has := e.st.iters[it]
			if !has {
				ok = false
				break
			}
			vs = append(vs, Val{Term: v, Sort: r.iterSort(it)})
		}
		if ok {
			out.iters[it] = r.mergeVals(ins, vs, "mit").Term
		}
	}
	// cells present in all
	var cells []*ssa.Alloc
	for c := range ins[0].st.cells {
		inAll := true
		for _, e := range ins[1:] {
			if _, ok := e.st.cells[c]; !ok {
				inAll = false
				break
			}
		}
		if inAll {
			cells = append(cells, c)
		}
	}
	sort.Slice(cells, func(i, j int) bool { return cells[i].Pos() < cells[j].Pos() || cells[i].Pos() == cells[j].Pos() && cells[i].Name() < cells[j].Name() })
	for _, c := range cells {
		var vs []Val
		for _, e := range ins {
			vs = append(vs, e.st.cells[c])
		}
		out.cells[c] = r.mergeVals(ins, vs, "m_"+mangle(c.Comment))
	}
	// heaps
	hn := map[string]bool{}
	for _, e := range ins {
		for h := range e.st.heaps {
			hn[h] = true
		}
	}
	var hns []string
	for h := range hn {
		hns = append(hns, h)
	}
	sort.Strings(hns)
	for _, h := range hns {
		var vs []Val
		for _, e := range ins {
			vs = append(vs, Val{Term: r.heapGet(e.st, h), Sort: "(Array Int " + r.heapSort[h] + ")"})
		}
		out.heaps[h] = r.mergeVals(ins, vs, "mh").Term
	}
	gs := map[*ssa.Global]bool{}
	for _, e := range ins {
		for g := range e.st.globals {
			gs[g] = true
		}
	}
	for g := range gs {
		var vs []Val
		for _, e := range ins {
			if v, ok := e.st.globals[g]; ok {
				vs = append(vs, v)
			} else {
				vs = append(vs, r.globalInit(g))
			}
		}
		out.globals[g] = r.mergeVals(ins, vs, "mg")
	}
	var nx []Val
	for _, e := range ins {
		nx = append(nx, Val{Term: e.st.nxt, Sort: "Int"})
	}
	out.nxt = r.mergeVals(ins, nx, "nxt").Term
	return out, reach
}

// execBody runs fr.fn from state st under reach; returns merged results.
func (r *run) execBody(fr *frame, st *State, reach string, args []Val) ([]Val, *State, string) {
	fn := fr.fn
	if fn.Blocks == nil {
		r.unsupported("no body for %s", fn.String())
	}
	if fn.Recover != nil {
		r.unsupported("function %s uses recover", fn.Name())
	}
	r.stack = append(r.stack, fn)
	defer func() { r.stack = r.stack[:len(r.stack)-1] }()
	r.analyzeLoops(fr)
	for i, p := range fn.Params {
		fr.vals[p] = args[i]
	}
	isBack := func(from, to *ssa.BasicBlock) bool { return to.Dominates(from) }
	order := rpo(fn, isBack)
	ins := map[*ssa.BasicBlock][]inEdge{}
	ins[fn.Blocks[0]] = []inEdge{{cond: reach, st: st}}
	for _, b := range order {
		edges := ins[b]
		if len(edges) == 0 {
			continue
		}
		bst, breach := r.mergeStates(edges)
		if len(edges) > 1 {
			// phi nodes
			for _, in := range b.Instrs {
				phi, ok := in.(*ssa.Phi)
				if !ok {
					break
				}
				var vs []Val
				for _, e := range edges {
					for pi, p := range b.Preds {
						if p == e.from {
							vs = append(vs, r.val(fr, e.st, phi.Edges[pi]))
							break
						}
					}
				}
				fr.vals[phi] = r.mergeVals(edges, vs, "phi")
			}
		} else {
			for _, in := range b.Instrs {
				phi, ok := in.(*ssa.Phi)
				if !ok {
					break
				}
				for pi, p := range b.Preds {
					if p == edges[0].from {
						fr.vals[phi] = r.val(fr, edges[0].st, phi.Edges[pi])
					}
				}
			}
		}
		if breach == "false" {
			continue
		}
		bst = bst.clone()
		if li := fr.loops[b]; li != nil {
			breach = r.loopHeader(fr, li, bst, breach)
		}
		r.execBlock(fr, b, bst, breach, ins)
	}
	// merge returns
	if len(fr.rets) == 0 {
		return nil, st, "false"
	}
	var redges []inEdge
	for _, ri := range fr.rets {
		redges = append(redges, inEdge{cond: ri.reach, st: ri.st})
	}
	outSt, outReach := r.mergeStates(redges)
	var results []Val
	for i := range fr.rets[0].vals {
		var col []Val
		for _, ri := range fr.rets {
			col = append(col, ri.vals[i])
		}
		results = append(results, r.mergeVals(redges, col, "ret"))
	}
	return results, outSt, outReach
}

func (r *run) loopHeader(fr *frame, li *loopInfo, st *State, reach string) string {
	li.extra = map[string]Val{}
	li.cntEntry = ""
	if li.cntCell != nil {
		if cv, ok := st.cells[li.cntCell]; ok && cv.Sort == "Int" && isIntLiteral(cv.Term) {
			li.cntEntry = cv.Term
		}
	}
	// entry obligations
	env := r.loopEnv(fr, li, st)
	if li.spec != nil {
		for _, inv := range li.spec.Invariants {
			t := r.specBool(env, inv.Expr, inv.Text)
			r.oblige(fr.name, "invariant-entry", reach, t, fmt.Sprintf("loop %d: %s", li.ordinal, inv.Text), li.header.Instrs[0].Pos())
		}
	}
	// havoc what the loop may modify
	eff := &effects{cells: map[*ssa.Alloc]bool{}, heaps: map[string]bool{}, globals: map[*ssa.Global]bool{}}
	r.storeEffects(fr, li.body, false, fr.fn, eff, 0)
	var cells []*ssa.Alloc
	for c := range eff.cells {
		if _, live := st.cells[c]; live {
			cells = append(cells, c)
		}
	}
	sort.Slice(cells, func(i, j int) bool { return cells[i].Name() < cells[j].Name() })
	for _, c := range cells {
		old := st.cells[c]
		if old.Loc != nil || old.Tup != nil {
			r.unsupported("loop modifies a cell holding a static pointer")
		}
		var nv Val
		if old.Type == nil {
			nv = Val{Term: r.fresh("lp_"+mangle(c.Comment), old.Sort), Sort: old.Sort}
		} else {
			nv = r.symbolic("lp_"+mangle(c.Comment), old.Type)
		}
		st.cells[c] = nv
		// a local slice that only ever receives freshly built values (nil, make, literals,
		// append onto itself) owns its backing array on every iteration
		if strings.HasPrefix(nv.Sort, "Slice_") && ownedCell(c, 0) {
			r.assume(reach, fmt.Sprintf("(own_%s %s)", strings.TrimPrefix(nv.Sort, "Slice_"), nv.Term))
		}
	}
	r.havocHeaps(st, eff)
	for _, b := range fr.fn.Blocks {
		if !li.body[b] {
			continue
		}
		for _, in := range b.Instrs {
			if nx, ok := in.(*ssa.Next); ok {
				if rg, ok := nx.Iter.(*ssa.Range); ok {
					if _, live := st.iters[rg]; live {
						st.iters[rg] = r.fresh("visited", r.iterSort(rg))
						li.iter = rg
					}
				}
			}
		}
	}
	// auto invariant for range loops
	if li.idxCell != nil && li.idxBound != nil {
		ri := st.cells[li.idxCell].Term
		bound := r.val(fr, st, li.idxBound).Term
		r.assume(reach, fmt.Sprintf("(and (<= (- 1) %s) (< %s (ite (< %s 0) 0 %s)))", ri, ri, bound, bound))
		// when the bound is 0 the header is reached once with ri = -1
		r.assume(reach, fmt.Sprintf("(=> (<= %s 0) (= %s (- 1)))", bound, ri))
	}
	// counting loop: the counter never drops below its value at loop entry (see countingCell)
	if li.cntCell != nil && li.cntEntry != "" {
		if cv, ok := st.cells[li.cntCell]; ok && cv.Sort == "Int" {
			r.assume(reach, fmt.Sprintf("(>= %s %s)", cv.Term, li.cntEntry))
		}
	}
	env = r.loopEnv(fr, li, st)
	if li.spec != nil {
		for _, inv := range li.spec.Invariants {
			r.assumeClause(env, reach, inv.Expr, inv.Text)
		}
		if li.spec.Decreases != nil {
			li.measure = r.specTerm(env, li.spec.Decreases.Expr).Term
		}
		for _, ic := range li.spec.Instantiate {
			r.lemmaInstance(env, reach, ic)
		}
		for _, rc := range li.spec.Reveal {
			r.reveal(env, reach, rc)
		}
	}
	li.hreach = reach
	return reach
}

func (r *run) havocHeaps(st *State, eff *effects) {
	var hs []string
	for h := range eff.heaps {
		hs = append(hs, h)
	}
	sort.Strings(hs)
	for _, h := range hs {
		switch {
		case h == "*":
			// "*" is every Go heap location; ghost state is only assigned when named
			// ("assigns *, ghost:x"), so that a callee's frame says whether it may write
			// protobuf state (DESIGN 13.6)
			for name := range r.heapSort {
				if strings.HasPrefix(name, "GHOST_") {
					continue
				}
				st.heaps[name] = r.fresh("hv_"+name, "(Array Int "+r.heapSort[name]+")")
			}
		case h == "MAP":
			for name := range r.heapSort {
				if strings.HasPrefix(name, "MD_") || strings.HasPrefix(name, "MV_") {
					st.heaps[name] = r.fresh("hv_"+name, "(Array Int "+r.heapSort[name]+")")
				}
			}
		case strings.HasPrefix(h, "FIELD:"):
			f := strings.TrimPrefix(h, "FIELD:")
			for name := range r.heapSort {
				if strings.HasSuffix(name, "_"+f) {
					st.heaps[name] = r.fresh("hv_"+name, "(Array Int "+r.heapSort[name]+")")
				}
			}
		default:
			st.heaps[h] = r.fresh("hv_"+h, "(Array Int "+r.heapSort[h]+")")
		}
	}
}

func (r *run) loopEnv(fr *frame, li *loopInfo, st *State) *specEnv {
	env := r.newEnv(fr, st)
	if li.idxCell != nil && li.spec != nil && li.spec.IdxName != "" {
		if v, ok := st.cells[li.idxCell]; ok {
			env.extra[li.spec.IdxName] = SVal{Term: fmt.Sprintf("(+ %s 1)", v.Term), Sort: "Int"}
		}
	}
	if li.idxCell == nil && li.cntCell != nil && li.cntEntry == "0" && li.spec != nil && li.spec.IdxName != "" {
		// `loop n (i)` on a counting loop from 0: i is the counter (= completed iterations)
		if v, ok := st.cells[li.cntCell]; ok {
			if _, shadow := env.extra[li.spec.IdxName]; !shadow {
				env.extra[li.spec.IdxName] = SVal{Term: v.Term, Sort: "Int"}
			}
		}
	}
	if li.spec != nil && li.spec.IdxName != "" && li.idxCell == nil && li.cntCell == nil {
		// map-range loop: the name denotes the ghost set of keys visited so far
		it := li.iter
		if it == nil {
			for _, b := range fr.fn.Blocks {
				if li.body[b] {
					for _, in := range b.Instrs {
						if nx, ok := in.(*ssa.Next); ok {
							if rg, ok := nx.Iter.(*ssa.Range); ok {
								it = rg
							}
						}
					}
				}
			}
		}
		if it != nil {
			if v, ok := st.iters[it]; ok {
				env.extra[li.spec.IdxName] = SVal{Term: v, Sort: r.iterSort(it)}
			}
		}
	}
	return env
}

func (r *run) backEdge(fr *frame, li *loopInfo, st *State, reach string, pos token.Pos) {
	env := r.loopEnv(fr, li, st)
	if li.spec != nil {
		for _, inv := range li.spec.Invariants {
			t := r.specBool(env, inv.Expr, inv.Text)
			r.oblige(fr.name, "invariant-preserved", reach, t, fmt.Sprintf("loop %d: %s", li.ordinal, inv.Text), pos)
		}
		if li.spec.Decreases != nil {
			m := r.specTerm(env, li.spec.Decreases.Expr).Term
			r.oblige(fr.name, "decreases", reach, fmt.Sprintf("(and (<= 0 %s) (< %s %s))", li.measure, m, li.measure), fmt.Sprintf("loop %d decreases %s", li.ordinal, li.spec.Decreases.Text), pos)
		}
	}
}

func (r *run) pushEdge(fr *frame, from, to *ssa.BasicBlock, cond string, st *State, ins map[*ssa.BasicBlock][]inEdge) {
	if cond == "false" {
		return
	}
	if to.Dominates(from) { // back edge
		li := fr.loops[to]
		pos := token.NoPos
		if len(from.Instrs) > 0 {
			pos = from.Instrs[len(from.Instrs)-1].Pos()
		}
		r.backEdge(fr, li, st, cond, pos)
		return
	}
	ins[to] = append(ins[to], inEdge{cond: cond, st: st, from: from})
}

// ownedCell: every value ever stored into the cell is freshly built by this activation.
func ownedCell(c *ssa.Alloc, depth int) bool {
	if depth > 3 || c.Heap {
		return false
	}
	refs := c.Referrers()
	if refs == nil {
		return false
	}
	for _, in := range *refs {
		st, ok := in.(*ssa.Store)
		if !ok || st.Addr != ssa.Value(c) {
			continue
		}
		if !ownedValue(st.Val, c, depth) {
			return false
		}
	}
	return true
}

func ownedValue(v ssa.Value, self *ssa.Alloc, depth int) bool {
	switch x := v.(type) {
	case *ssa.Const:
		return x.Value == nil
	case *ssa.MakeSlice:
		return true
	case *ssa.Slice:
		// slice literal: slicing a freshly allocated array
		if a, ok := x.X.(*ssa.Alloc); ok {
			_, isArr := a.Type().Underlying().(*types.Pointer).Elem().Underlying().(*types.Array)
			return isArr
		}
		return false
	case *ssa.Call:
		if b, ok := x.Call.Value.(*ssa.Builtin); ok && b.Name() == "append" {
			return ownedValue(x.Call.Args[0], self, depth)
		}
		return false
	case *ssa.UnOp:
		if x.Op == token.MUL {
			if a, ok := x.X.(*ssa.Alloc); ok {
				if a == self {
					return true
				}
				return ownedCell(a, depth+1)
			}
		}
		return false
	}
	return false
}

// assumeClause assumes a contract clause together with its ground instances at index 0.
func (r *run) assumeClause(env *specEnv, reach string, x *SExpr, text string) {
	r.assume(reach, r.specBool(env, x, text))
	for _, inst := range zeroInstances(x) {
		r.assume(reach, r.specBool(env, inst, text))
	}
}

func (r *run) iterSort(rg *ssa.Range) string {
	m := rg.X.Type().Underlying().(*types.Map)
	return "(Array " + r.eng.Sorts.SortOf(m.Key()) + " Bool)"
}

// share names a large term by a fresh constant so that later terms refer to it by name
// (terms are strings: without sharing, repeated functional updates grow exponentially).
func (r *run) share(term, sort string) string {
	if len(term) < 160 {
		return term
	}
	c := r.fresh("d", sort)
	r.emit(fmt.Sprintf("(assert (= %s %s))", c, term))
	return c
}

// lemmaInstance assumes one instance of a separately proved lemma: requires ==> ensures with
// the lemma's binders replaced by the given terms.
func (r *run) lemmaInstance(env *specEnv, reach string, ic Clause) {
	if ic.Expr.Op != "call" {
		r.unsupported("instantiate expects lemma(args): %s", ic.Text)
	}
	lem := r.eng.Contracts["lemma:"+ic.Expr.Val]
	if lem == nil {
		r.unsupported("unknown lemma %q", ic.Expr.Val)
	}
	if len(lem.Binders) != len(ic.Expr.Args) {
		r.unsupported("lemma %s takes %d arguments", ic.Expr.Val, len(lem.Binders))
	}
	lem.Used = true
	saved := map[string]SVal{}
	for i, b := range lem.Binders {
		if old, ok := env.bound[b.Name]; ok {
			saved[b.Name] = old
		}
		v := env.tr(ic.Expr.Args[i])
		defer func(name string) {
			delete(env.bound, name)
			if old, ok := saved[name]; ok {
				env.bound[name] = old
			}
		}(b.Name)
		env.bound[b.Name] = v
	}
	// evaluate the lemma body in an environment where only its binders are visible
	lenv := r.newEnv(nil, env.st)
	lenv.pkg = env.pkg
	for _, b := range lem.Binders {
		lenv.bound[b.Name] = env.bound[b.Name]
	}
	var hyp, concl []string
	for _, rq := range lem.Requires {
		hyp = append(hyp, r.specBool(lenv, rq.Expr, rq.Text))
	}
	for _, en := range lem.Ensures {
		concl = append(concl, r.specBool(lenv, en.Expr, en.Text))
	}
	r.assume(reach, fmt.Sprintf("(=> %s %s)", and(hyp...), and(concl...)))
	r.assumed["lemma (proved separately): "+ic.Expr.Val] = true
	r.usedLemmas = append(r.usedLemmas, ic.Expr.Val)
}

// reveal unfolds an opaque spec function for the given arguments.
func (r *run) reveal(env *specEnv, reach string, rc Clause) {
	if rc.Expr.Op != "call" || !r.eng.Prelude.Opaque[rc.Expr.Val] {
		r.unsupported("reveal expects an opaque spec function applied to arguments: %s", rc.Text)
	}
	v := env.tr(rc.Expr)
	hidden := strings.Replace(v.Term, "("+rc.Expr.Val+" ", "("+rc.Expr.Val+"!def ", 1)
	r.assume(reach, fmt.Sprintf("(= %s %s)", v.Term, hidden))
}

func isIntLiteral(t string) bool {
	if t == "" {
		return false
	}
	if strings.HasPrefix(t, "(- ") && strings.HasSuffix(t, ")") {
		t = t[3 : len(t)-1]
	}
	for _, c := range t {
		if c < '0' || c > '9' {
			return false
		}
	}
	return true
}
