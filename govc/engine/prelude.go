package engine

import (
	"fmt"
	"os"
	"path/filepath"
	"sort"
	"strings"
)

// Prelude holds spec functions, lemma helper definitions and axioms written directly in
// SMT-LIB (contracts/prelude/*.smt2). A definition is included in a query only when the
// query (transitively) mentions it.
type Prelude struct {
	Defs      map[string]*PDef
	Order     []string
	Axioms    []*PDef
	UsesTypes []string
	Opaque    map[string]bool
	Ghosts    map[string]string // ghost state variables (name -> sort), ";@ ghost name Sort"
}

type PDef struct {
	Name     string
	Kind     string // define-fun, define-fun-rec, declare-fun, declare-const, assert
	ArgSorts []string
	ResSort  string
	Text     string
	Syms     []string
	File     string
}

func splitTopLevel(src string) []string {
	var out []string
	depth := 0
	start := -1
	inStr := false
	for i := 0; i < len(src); i++ {
		c := src[i]
		if inStr {
			if c == '"' {
				inStr = false
			}
			continue
		}
		switch c {
		case ';':
			for i < len(src) && src[i] != '\n' {
				i++
			}
		case '"':
			inStr = true
		case '(':
			if depth == 0 {
				start = i
			}
			depth++
		case ')':
			depth--
			if depth == 0 && start >= 0 {
				out = append(out, src[start:i+1])
				start = -1
			}
		}
	}
	return out
}

func sexprTokens(s string) []string {
	var out []string
	i := 0
	for i < len(s) {
		c := s[i]
		switch {
		case c == '(' || c == ')':
			out = append(out, string(c))
			i++
		case c == ' ' || c == '\n' || c == '\t' || c == '\r':
			i++
		case c == ';':
			for i < len(s) && s[i] != '\n' {
				i++
			}
		case c == '"':
			j := i + 1
			for j < len(s) {
				if s[j] == '"' {
					if j+1 < len(s) && s[j+1] == '"' {
						j += 2
						continue
					}
					break
				}
				j++
			}
			out = append(out, s[i:j+1])
			i = j + 1
		default:
			j := i
			for j < len(s) && !strings.ContainsRune("() \n\t\r", rune(s[j])) {
				j++
			}
			out = append(out, s[i:j])
			i = j
		}
	}
	return out
}

// readSort reads one sort starting at toks[i]; returns its text and next index.
func readSort(toks []string, i int) (string, int) {
	if toks[i] != "(" {
		return toks[i], i + 1
	}
	depth := 0
	var parts []string
	for j := i; j < len(toks); j++ {
		if toks[j] == "(" {
			depth++
		}
		if toks[j] == ")" {
			depth--
		}
		parts = append(parts, toks[j])
		if depth == 0 {
			s := strings.Join(parts, " ")
			s = strings.ReplaceAll(s, "( ", "(")
			s = strings.ReplaceAll(s, " )", ")")
			return s, j + 1
		}
	}
	return strings.Join(parts, " "), len(toks)
}

func LoadPrelude(dir string, generated ...string) (*Prelude, error) {
	p := &Prelude{Defs: map[string]*PDef{}, Opaque: map[string]bool{}, Ghosts: map[string]string{}}
	files, _ := filepath.Glob(filepath.Join(dir, "*.smt2"))
	sort.Strings(files)
	// definitions generated from /repo's current sources on every run (e.g. the operator
	// alternatives of the grammar file) are read after the committed files
	for i := range generated {
		files = append(files, fmt.Sprintf("generated:%d", i))
	}
	for _, f := range files {
		var data []byte
		if strings.HasPrefix(f, "generated:") {
			var gi int
			fmt.Sscanf(f, "generated:%d", &gi)
			data = []byte(generated[gi])
		} else {
			var err error
			data, err = os.ReadFile(f)
			if err != nil {
				return nil, err
			}
		}
		for _, line := range strings.Split(string(data), "\n") {
			if strings.HasPrefix(line, ";@ uses-type ") {
				p.UsesTypes = append(p.UsesTypes, strings.Fields(strings.TrimPrefix(line, ";@ uses-type "))...)
			}
			if strings.HasPrefix(line, ";@ ghost ") {
				if fs := strings.Fields(strings.TrimPrefix(line, ";@ ghost ")); len(fs) == 2 {
					p.Ghosts[fs[0]] = fs[1]
				}
			}
			if strings.HasPrefix(line, ";@ opaque ") {
				for _, n := range strings.Fields(strings.TrimPrefix(line, ";@ opaque ")) {
					p.Opaque[n] = true
				}
			}
		}
		for _, form := range splitTopLevel(string(data)) {
			toks := sexprTokens(form)
			if len(toks) < 3 {
				continue
			}
			d := &PDef{Kind: toks[1], Text: form, File: filepath.Base(f)}
			switch d.Kind {
			case "define-fun", "define-fun-rec":
				d.Name = toks[2]
				// toks[3] == "(" start of params
				i := 4
				for toks[i] == "(" {
					// ( name sort )
					so, n := readSort(toks, i+2)
					d.ArgSorts = append(d.ArgSorts, so)
					i = n + 1
				}
				i++ // closing paren of param list
				d.ResSort, _ = readSort(toks, i)
			case "declare-fun":
				d.Name = toks[2]
				i := 4
				for toks[i] != ")" {
					var so string
					so, i = readSort(toks, i)
					d.ArgSorts = append(d.ArgSorts, so)
				}
				d.ResSort, _ = readSort(toks, i+1)
			case "declare-const":
				d.Name = toks[2]
				d.ResSort, _ = readSort(toks, 3)
			case "assert":
				d.Name = fmt.Sprintf("axiom@%s#%d", filepath.Base(f), len(p.Axioms)+1)
			default:
				return nil, fmt.Errorf("%s: unsupported prelude form %s", f, d.Kind)
			}
			for _, t := range toks {
				if t != "(" && t != ")" {
					d.Syms = append(d.Syms, t)
				}
			}
			if (d.Kind == "define-fun" || d.Kind == "define-fun-rec") && p.Opaque[d.Name] {
				// opaque: queries see only an uninterpreted symbol; "reveal name(args)" in a
				// contract equates it with the hidden definition for those arguments
				hidden := *d
				hidden.Name = d.Name + "!def"
				hidden.Text = strings.Replace(d.Text, "("+d.Kind+" "+d.Name+" ", "("+d.Kind+" "+hidden.Name+" ", 1)
				var syms []string
				for _, sy := range d.Syms {
					if sy == d.Name {
						sy = hidden.Name
					}
					syms = append(syms, sy)
				}
				hidden.Syms = syms
				p.Defs[hidden.Name] = &hidden
				p.Order = append(p.Order, hidden.Name)
				decl := &PDef{Name: d.Name, Kind: "declare-fun", ArgSorts: d.ArgSorts, ResSort: d.ResSort, File: d.File,
					Text: fmt.Sprintf("(declare-fun %s (%s) %s)", d.Name, strings.Join(d.ArgSorts, " "), d.ResSort), Syms: []string{d.Name}}
				p.Defs[d.Name] = decl
				p.Order = append(p.Order, d.Name)
				continue
			}
			if d.Kind == "assert" {
				p.Axioms = append(p.Axioms, d)
			} else {
				if _, dup := p.Defs[d.Name]; dup {
					return nil, fmt.Errorf("%s: duplicate prelude symbol %s", f, d.Name)
				}
				p.Defs[d.Name] = d
				p.Order = append(p.Order, d.Name)
			}
		}
	}
	// A recursive definition whose body reaches a quantifier (directly or through the macros it
	// uses) is not handled soundly by z3 5.1.0 (DESIGN 13.3): refuse such a prelude outright.
	hasQ := func(d *PDef) bool {
		return strings.Contains(d.Text, "(exists ") || strings.Contains(d.Text, "(forall ")
	}
	for _, d := range p.Defs {
		if d.Kind != "define-fun-rec" {
			continue
		}
		seen := map[string]bool{}
		stack := []*PDef{d}
		for len(stack) > 0 {
			x := stack[len(stack)-1]
			stack = stack[:len(stack)-1]
			if seen[x.Name] {
				continue
			}
			seen[x.Name] = true
			if (x.Kind == "define-fun" || x.Kind == "define-fun-rec") && hasQ(x) {
				return nil, fmt.Errorf("prelude: recursive definition %s reaches a quantifier through %s", d.Name, x.Name)
			}
			if x.Kind != "define-fun" && x.Kind != "define-fun-rec" {
				continue
			}
			for _, sy := range x.Syms {
				if y, ok := p.Defs[sy]; ok && !seen[y.Name] {
					stack = append(stack, y)
				}
			}
		}
	}
	return p, nil
}

// Select returns the prelude text needed by a query body, in definition order, and the
// names of the axioms included.
func (p *Prelude) Select(body string, force []string) (string, []string, []string) {
	need := map[string]bool{}
	var visit func(name string)
	visit = func(name string) {
		if need[name] {
			return
		}
		d, ok := p.Defs[name]
		if !ok {
			return
		}
		need[name] = true
		for _, s := range d.Syms {
			if s != name {
				visit(s)
			}
		}
	}
	for _, t := range sexprTokens(body) {
		if _, ok := p.Defs[t]; ok {
			visit(t)
		}
	}
	for _, f := range force {
		visit(f)
	}
	// axioms: included when they mention an included symbol; then close again
	inclAx := map[int]bool{}
	for changed := true; changed; {
		changed = false
		for i, a := range p.Axioms {
			if inclAx[i] {
				continue
			}
			hit := false
			for _, s := range a.Syms {
				if need[s] {
					hit = true
					break
				}
			}
			if hit {
				inclAx[i] = true
				changed = true
				for _, s := range a.Syms {
					visit(s)
				}
			}
		}
	}
	var b strings.Builder
	var names, axs []string
	for _, n := range p.Order {
		if need[n] {
			b.WriteString(p.Defs[n].Text)
			b.WriteString("\n")
			names = append(names, n)
		}
	}
	for i, a := range p.Axioms {
		if inclAx[i] {
			b.WriteString(a.Text)
			b.WriteString("\n")
			axs = append(axs, a.Name)
		}
	}
	return b.String(), names, axs
}
