package main

import (
	"encoding/json"
	"flag"
	"fmt"
	"os"
	"sort"
	"strings"

	"govc/engine"
)

func main() {
	if len(os.Args) < 2 {
		fmt.Fprintln(os.Stderr, "usage: govc func|check|ssa ...")
		os.Exit(2)
	}
	switch os.Args[1] {
	case "func":
		cmdFunc(os.Args[2:])
	case "loops":
		e, err := engine.Load("/repo", "/verif", []string{"./..."})
		if err != nil {
			fmt.Println(err)
			os.Exit(2)
		}
		var keys []string
		for k := range e.Contracts {
			keys = append(keys, k)
		}
		sort.Strings(keys)
		for _, k := range keys {
			fn := e.Funcs[k]
			if fn == nil || fn.Blocks == nil {
				continue
			}
			for _, b := range fn.Blocks {
				if strings.HasSuffix(b.Comment, ".loop") {
					fmt.Printf("%s\t%s\tblock %d\n", k, b.Comment, b.Index)
				}
			}
		}
	case "locals":
		// baseline of local-variable names and types of every function under contract
		// (written to contracts/locals.json when contracts are written or revised)
		e, err := engine.Load("/repo", "/verif", []string{"./..."})
		if err != nil {
			fmt.Println(err)
			os.Exit(2)
		}
		out := map[string][]engine.BaseLocal{}
		for k := range e.Contracts {
			fn := e.Funcs[k]
			if fn == nil || fn.Blocks == nil {
				continue
			}
			if ls := engine.LocalsOf(fn); len(ls) > 0 {
				out[k] = ls
			}
		}
		data, _ := json.MarshalIndent(out, "", " ")
		if err := os.WriteFile("/verif/contracts/locals.json", append(data, '\n'), 0o644); err != nil {
			fmt.Println(err)
			os.Exit(2)
		}
		fmt.Printf("%d functions\n", len(out))
	case "sweep":
		cmdSweep(os.Args[2:])
	case "list":
		e, err := engine.Load("/repo", "/verif", []string{"./..."})
		if err != nil {
			fmt.Println(err)
			os.Exit(2)
		}
		for k := range e.Funcs {
			if strings.Contains(k, os.Args[2]) {
				fmt.Println(k, e.Funcs[k].Blocks != nil)
			}
		}
	case "check":
		os.Exit(cmdCheck(os.Args[2:]))
	case "replay":
		os.Exit(cmdReplay(os.Args[2:]))
	case "selftest":
		os.Exit(cmdSelftest(os.Args[2:]))
	default:
		fmt.Fprintln(os.Stderr, "unknown command", os.Args[1])
		os.Exit(2)
	}
}

func cmdFunc(args []string) {
	fs := flag.NewFlagSet("func", flag.ExitOnError)
	repo := fs.String("repo", "/repo", "")
	verif := fs.String("verif", "/verif", "")
	dump := fs.Bool("dump", false, "print failing queries' paths")
	timeout := fs.Int("timeout", 30, "")
	all := fs.Bool("all", false, "print every obligation")
	fs.Parse(args)
	e, err := engine.Load(*repo, *verif, []string{"./..."})
	if err != nil {
		fmt.Fprintln(os.Stderr, "load:", err)
		os.Exit(2)
	}
	e.Timeout = *timeout
	e.Verbose = true
	var keys []string
	for k := range e.Funcs {
		keys = append(keys, k)
	}
	sort.Strings(keys)
	scratch, _ := os.MkdirTemp("", "govc-func-")
	if !*dump {
		defer os.RemoveAll(scratch)
	}
	for _, pat := range fs.Args() {
		if strings.HasPrefix(pat, "lemma:") {
			ct := e.Contracts[pat]
			if ct == nil {
				fmt.Println("no such lemma", pat)
				continue
			}
			rep := e.VerifyLemma(ct)
			e.Solve(rep, scratch)
			printReport(rep, *all)
			continue
		}
		for _, k := range keys {
			if !strings.HasSuffix(k, pat) {
				continue
			}
			fn := e.Funcs[k]
			if fn.Blocks == nil {
				continue
			}
			rep := e.VerifyFunction(fn)
			e.Solve(rep, scratch)
			printReport(rep, *all)
		}
	}
	if *dump {
		fmt.Println("queries in", scratch)
	}
}

func printReport(rep *engine.FuncReport, all bool) {
	fmt.Printf("== %s  (contract=%v, %d obligations, %d bytes, %.2fs)\n", rep.Func, rep.HasContract, len(rep.Obligations), rep.QueryBytes, rep.SolverTimeS)
	if rep.Error != "" {
		fmt.Println("   ERROR:", rep.Error)
	}
	for _, ob := range rep.Obligations {
		if all || ob.Status != "discharged" {
			fmt.Printf("   %-12s %-60s %s [%s %.2fs] %s\n", ob.Status, ob.Name, ob.Pos, ob.Backend, ob.TimeS, ob.Text)
			if ob.Status == "refuted" && ob.Model != "" {
				m := ob.Model
				if len(m) > 1500 {
					m = m[:1500]
				}
				fmt.Println("      model:", strings.ReplaceAll(m, "\n", "\n      "))
			}
			if ob.Status == "undischarged" {
				fmt.Println("      ", strings.ReplaceAll(ob.Output, "\n", "\n       "))
			}
		}
	}
	for _, a := range rep.Assumed {
		fmt.Println("   assumed:", a)
	}
}

// cmdSweep: zero-annotation safety sweep (DESIGN §13): every repo function matching the
// given substrings that has no contract is executed symbolically with unconstrained
// parameters and its language-level safety obligations are tried once; refuted ones are
// candidates for genuine defects (or for a missing precondition) and are only a work list,
// never a verdict.
func cmdSweep(args []string) {
	e, err := engine.Load("/repo", "/verif", []string{"./..."})
	if err != nil {
		fmt.Fprintln(os.Stderr, "load:", err)
		os.Exit(2)
	}
	e.Timeout = 5
	e.Tier = "sweep"
	var keys []string
	for k, fn := range e.Funcs {
		if fn.Blocks == nil || fn.Synthetic != "" || fn.Parent() != nil {
			continue
		}
		pk := engine.FnPkg(fn)
		if pk == nil || !strings.HasPrefix(pk.Pkg.Path(), "github.com/verily-src/fhirpath-go") {
			continue
		}
		if strings.Contains(k, "/grammar.") || strings.Contains(k, "fhirtest") || strings.Contains(k, "stablerand") || strings.Contains(k, "[") {
			continue
		}
		ok := len(args) == 0
		for _, a := range args {
			if strings.Contains(k, a) {
				ok = true
			}
		}
		if !ok {
			continue
		}
		if e.Contracts[k] != nil {
			continue
		}
		keys = append(keys, k)
	}
	sort.Strings(keys)
	scratch, _ := os.MkdirTemp("", "govc-sweep-")
	defer os.RemoveAll(scratch)
	e.SkipRace = map[string]bool{}
	for _, k := range keys {
		rep := e.VerifyFunction(e.Funcs[k])
		if rep.Error != "" {
			fmt.Printf("SKIP %s: %s\n", rep.Func, rep.Error)
			continue
		}
		for _, ob := range rep.Obligations {
			e.SkipRace[ob.Name] = true
		}
		e.Solve(rep, scratch)
		n, bad := 0, 0
		for _, ob := range rep.Obligations {
			if ob.Kind == "vacuity" {
				continue
			}
			n++
			if ob.Status != "discharged" {
				bad++
				fmt.Printf("OPEN %s %s %s | %s\n", ob.Name, ob.Kind, ob.Pos, ob.Text)
			}
		}
		fmt.Printf("FUNC %s obligations=%d open=%d\n", rep.Func, n, bad)
	}
}
