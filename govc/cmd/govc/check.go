package main

import (
	"encoding/json"
	"flag"
	"fmt"
	"os"
	"path/filepath"
	"sort"
	"strconv"
	"strings"
	"sync"
	"time"

	"govc/engine"
)

type PropConfig struct {
	ID         string   `json:"id"`
	Functions  []string `json:"functions"`
	Lemmas     []string `json:"lemmas"`
	Bounded    []string `json:"bounded"`
	NotCovered []string `json:"not_covered"`
	Notes      string   `json:"notes"`
	// SafetyOnly functions are checked for language-level safety obligations only
	// (no contract required); used by C01's closure.
	SafetyOnly []string `json:"safety_only"`
	// Unproved lists obligations that do not discharge on the pinned tree for a reason that
	// is a limit of the contracts/engine (not a defect); they are reported as not covered,
	// never counted as discharged, and a *new* failure is still a violation.
	Unproved []string `json:"unproved"`
	// OnlyKinds: obligation kinds that belong to this property; other kinds generated for the
	// same functions (language-level safety) are decided by the property that owns them (C01)
	OnlyKinds []string `json:"only_kinds"`
	// Ignore: obligations of these functions that belong to another property's claim
	Ignore []string `json:"ignore"`
	// ExactKinds: with only_kinds, postconditions are not kept implicitly (they belong to the
	// properties that own those functions); used by the frame-only check of C03
	ExactKinds bool `json:"exact_kinds"`
	// FrameOnly: further functions of which only the frame.* obligations belong to this
	// property (their other obligations are decided by the properties that own them)
	FrameOnly []string `json:"frame_only"`
	// KeepText: with only_kinds, loop-invariant obligations whose text mentions one of these
	// strings are kept too (C03 keeps the ownership invariants "own(...)" its frame.append
	// obligations rest on)
	KeepText []string `json:"keep_text"`
	// EnsuresOnly: further functions of which only the postconditions belong to this property
	// (C16: the arity clauses of the function implementations)
	EnsuresOnly []string `json:"ensures_only"`
	// AllKinds: further functions of which every obligation belongs to this property, whatever
	// only_kinds says (C01: the visitor and Compile, whose postconditions ARE the property)
	AllKinds []string `json:"all_kinds"`
}

type KnownFinding struct {
	Property   string `json:"property"`
	Obligation string `json:"obligation"`
	Witness    string `json:"witness"`
	// WitnessExpr/WitnessWant: a FHIRPath program evaluated on an empty input through the
	// public API and the rendering (fmt.Sprint) of the result the *property* requires. While
	// the real code still returns something else the finding is still present.
	WitnessExpr string `json:"witness_expr,omitempty"`
	WitnessWant string `json:"witness_want,omitempty"`
	// WitnessOnPatient: evaluate on one empty Patient resource instead of an empty input
	WitnessOnPatient bool `json:"witness_on_patient,omitempty"`
	Status     string `json:"status"` // open | fixed
	Commit     string `json:"commit,omitempty"`
	Note       string `json:"note,omitempty"`
}

type KnownFile struct {
	Findings []KnownFinding `json:"findings"`
}

func loadKnown(verif string) KnownFile {
	var k KnownFile
	data, err := os.ReadFile(filepath.Join(verif, "known_findings.json"))
	if err == nil {
		json.Unmarshal(data, &k)
	}
	return k
}

func envInt(name string, def int) int {
	if v := os.Getenv(name); v != "" {
		if n, err := strconv.Atoi(v); err == nil {
			return n
		}
	}
	return def
}

func cmdCheck(args []string) int {
	fs := flag.NewFlagSet("check", flag.ExitOnError)
	repo := fs.String("repo", "/repo", "")
	verif := fs.String("verif", "/verif", "")
	tier := fs.String("tier", "", "quick|thorough")
	verbose := fs.Bool("v", false, "")
	keep := fs.Bool("keep", false, "keep query files")
	fs.Parse(args)
	if fs.NArg() < 1 {
		fmt.Fprintln(os.Stderr, "usage: govc check [--tier quick|thorough] <property-id>...")
		return 2
	}
	if *tier == "" {
		*tier = os.Getenv("VERIF_TIER")
	}
	if *tier == "" {
		*tier = "quick"
	}
	seed := envInt("VERIF_SEED", 0)
	start := time.Now()
	e, err := engine.Load(*repo, *verif, []string{"./..."})
	if err != nil {
		// the tree does not load: nothing can be established
		fmt.Printf("ENGINE-FAULT load: %v\n", err)
		return 2
	}
	e.Tier = *tier
	e.Seed = seed
	e.Verbose = *verbose
	e.Timeout = 90 // slowest obligation on the unchanged tree: ~20 s when the machine is otherwise idle
	if *tier == "thorough" {
		e.Timeout = 180
	}
	loadS := time.Since(start).Seconds()
	rc := 0
	for _, id := range fs.Args() {
		c := checkProperty(e, *verif, id, *tier, seed, loadS, *keep)
		if c > rc {
			rc = c
		}
	}
	return rc
}

type obOut struct {
	Name    string  `json:"name"`
	Kind    string  `json:"kind"`
	Text    string  `json:"text"`
	Pos     string  `json:"pos,omitempty"`
	Status  string  `json:"status"`
	Backend string  `json:"backend"`
	TimeS   float64 `json:"time_s,omitempty"`
	Second  string  `json:"second_opinion,omitempty"`
}

func checkProperty(e *engine.Engine, verif, id, tier string, seed int, loadS float64, keep bool) int {
	start := time.Now()
	var cfg PropConfig
	data, err := os.ReadFile(filepath.Join(verif, "props", id+".json"))
	if err != nil {
		fmt.Printf("ENGINE-FAULT %s: no property configuration: %v\n", id, err)
		return 2
	}
	if err := json.Unmarshal(data, &cfg); err != nil {
		fmt.Printf("ENGINE-FAULT %s: bad property configuration: %v\n", id, err)
		return 2
	}
	known := loadKnown(verif)
	e.SkipRace = map[string]bool{}
	for _, k := range known.Findings {
		if k.Status == "open" {
			e.SkipRace[k.Obligation] = true
		}
	}
	for _, u := range cfg.Unproved {
		// declared not-covered obligations: reported as such whatever the solvers say
		e.SkipRace[u] = true
	}
	scratch, _ := os.MkdirTemp("", "govc-"+id+"-")
	if !keep {
		defer os.RemoveAll(scratch)
	}
	type job struct {
		key       string
		lemma     bool
		frameOnly bool
		ensOnly   bool
		allKinds  bool
		rep       *engine.FuncReport
	}
	var jobs []*job
	for _, f := range cfg.Functions {
		jobs = append(jobs, &job{key: f})
	}
	for _, f := range cfg.SafetyOnly {
		jobs = append(jobs, &job{key: f})
	}
	for _, f := range cfg.FrameOnly {
		jobs = append(jobs, &job{key: f, frameOnly: true})
	}
	for _, f := range cfg.EnsuresOnly {
		jobs = append(jobs, &job{key: f, ensOnly: true})
	}
	for _, f := range cfg.AllKinds {
		jobs = append(jobs, &job{key: f, allKinds: true})
	}
	for _, l := range cfg.Lemmas {
		jobs = append(jobs, &job{key: l, lemma: true})
	}
	var missing []string
	var mu sync.Mutex
	var wg sync.WaitGroup
	sem := make(chan struct{}, 6)
	// obligation generation is not concurrency-safe (shared sort registry): do it serially
	for _, j := range jobs {
		if j.lemma {
			ct := e.Contracts[j.key]
			if ct == nil {
				missing = append(missing, j.key)
				continue
			}
			j.rep = e.VerifyLemma(ct)
			continue
		}
		fn := e.Funcs[expandKey(j.key)]
		if fn == nil || fn.Blocks == nil {
			missing = append(missing, j.key)
			continue
		}
		j.rep = e.VerifyFunction(fn)
	}
	for _, j := range jobs {
		if j.rep == nil || !j.ensOnly {
			continue
		}
		for _, ob := range j.rep.Obligations {
			if !strings.HasPrefix(ob.Kind, "ensures") && !strings.HasPrefix(ob.Kind, "invariant") && ob.Kind != "vacuity" {
				ob.Static = true
				ob.Status = "skipped"
			}
		}
	}
	for _, j := range jobs {
		if j.rep == nil || !j.frameOnly {
			continue
		}
		for _, ob := range j.rep.Obligations {
			own := (strings.HasPrefix(ob.Kind, "invariant") || ob.Kind == "ensures.fresh") && strings.Contains(ob.Text, "own(")
			if !strings.HasPrefix(ob.Kind, "frame.") && ob.Kind != "vacuity" && !own {
				ob.Static = true
				ob.Status = "skipped"
			}
		}
	}
	if len(cfg.OnlyKinds) > 0 || len(cfg.Ignore) > 0 {
		keep := map[string]bool{}
		for _, k := range cfg.OnlyKinds {
			keep[k] = true
		}
		ign := map[string]bool{}
		for _, k := range cfg.Ignore {
			ign[k] = true
		}
		for _, j := range jobs {
			if j.rep == nil || j.allKinds {
				continue
			}
			for _, ob := range j.rep.Obligations {
				keptByText := false
				if strings.HasPrefix(ob.Kind, "invariant") || ob.Kind == "ensures.fresh" {
					for _, kt := range cfg.KeepText {
						if strings.Contains(ob.Text, kt) {
							keptByText = true
						}
					}
				}
				if (len(cfg.OnlyKinds) > 0 && !keep[ob.Kind] && !keptByText && ob.Kind != "vacuity" && (cfg.ExactKinds || !strings.HasPrefix(ob.Kind, "ensures"))) || ign[ob.Name] {
					ob.Static = true
					ob.Status = "skipped"
				}
			}
		}
	}
	// lemmas used by contracts must themselves be proved in this run
	have := map[string]bool{}
	for _, j := range jobs {
		have[j.key] = true
	}
	for i := 0; i < len(jobs); i++ {
		if jobs[i].rep == nil {
			continue
		}
		for _, ln := range jobs[i].rep.UsedLemmas {
			k := "lemma:" + ln
			if have[k] {
				continue
			}
			have[k] = true
			nj := &job{key: k, lemma: true}
			if ct := e.Contracts[k]; ct != nil {
				nj.rep = e.VerifyLemma(ct)
			} else {
				missing = append(missing, k)
			}
			jobs = append(jobs, nj)
		}
	}
	for _, j := range jobs {
		if j.rep == nil {
			continue
		}
		wg.Add(1)
		go func(j *job) {
			defer wg.Done()
			sem <- struct{}{}
			defer func() { <-sem }()
			e.Solve(j.rep, scratch)
			mu.Lock()
			mu.Unlock()
		}(j)
	}
	wg.Wait()
	secondConfirmed, secondUnknown := 0, 0
	if tier == "thorough" {
		deadline := time.Now().Add(25 * time.Minute)
		var wg2 sync.WaitGroup
		sem2 := make(chan struct{}, 4)
		for _, j := range jobs {
			if j.rep == nil {
				continue
			}
			wg2.Add(1)
			go func(j *job) {
				defer wg2.Done()
				sem2 <- struct{}{}
				defer func() { <-sem2 }()
				c, u := e.SecondOpinion(j.rep, scratch, deadline)
				mu.Lock()
				secondConfirmed += c
				secondUnknown += u
				mu.Unlock()
			}(j)
		}
		wg2.Wait()
	}

	// collect
	var all []obOut
	byKind := map[string]int{}
	byBackend := map[string]int{}
	assumed := map[string]bool{}
	var funcs []string
	var failures []*failure
	var faults []string
	var solverSum, solverMax float64
	var slow []obOut
	nOb, nDis, nVac, nUnproved := 0, 0, 0, 0
	nSkipped := 0
	unproved := map[string]bool{}
	for _, u := range cfg.Unproved {
		unproved[u] = true
	}
	knownOpen := map[string]KnownFinding{}
	for _, k := range known.Findings {
		// a finding is identified by its obligation and witness; it is reported by every
		// property whose check meets that obligation
		if k.Status == "open" {
			knownOpen[k.Obligation] = k
		}
	}
	seenKnown := map[string]bool{}
	var knownLines []string
	for _, m := range missing {
		failures = append(failures, &failure{ob: &engine.Obligation{Name: m + "#contract-target-missing", Kind: "contract-target-missing", Text: "function or lemma under contract not found in the current tree", Status: "undischarged"}})
	}
	var unprovedSeen []string
	for _, j := range jobs {
		rep := j.rep
		if rep == nil {
			continue
		}
		funcs = append(funcs, rep.Func)
		if rep.Error != "" {
			// cannot generate or run the obligations of a function under contract: the property
			// can no longer be established on this tree (fail closed; DESIGN §7)
			failures = append(failures, &failure{rep: rep, ob: &engine.Obligation{Name: rep.Func + "#lowering", Kind: "lowering", Text: rep.Error, Status: "undischarged", Output: rep.Error}})
			continue
		}
		for _, a := range rep.Assumed {
			assumed[a] = true
		}
		solverSum += rep.SolverTimeS
		if rep.SolverTimeS > solverMax {
			solverMax = rep.SolverTimeS
		}
		for _, ob := range rep.Obligations {
			if ob.Status == "skipped" {
				nSkipped++
				continue
			}
			o := obOut{Name: ob.Name, Kind: ob.Kind, Text: ob.Text, Pos: ob.Pos, Status: ob.Status, Backend: ob.Backend, TimeS: ob.TimeS, Second: ob.Second}
			if ob.Kind == "vacuity" {
				nVac++
				if ob.Status != "discharged" {
					faults = append(faults, fmt.Sprintf("%s: vacuity canary %s (%s)", ob.Name, ob.Status, ob.FailNote))
				}
				continue
			}
			if ob.Status == "engine-fault" {
				faults = append(faults, ob.Name+": "+ob.FailNote)
				continue
			}
			if kf, ok := knownOpen[ob.Name]; ok {
				if ob.Status != "discharged" && witnessStillFails(e, kf) {
					seenKnown[ob.Name] = true
					knownLines = append(knownLines, fmt.Sprintf("KNOWN-FINDING: property=%s %s witness: %s", id, ob.Name, kf.Witness))
					o.Status = "known-finding"
					all = append(all, o)
					continue
				}
			}
			if unproved[ob.Name] || unproved[obLineKey(e.RepoDir, ob)] {
				nUnproved++
				unprovedSeen = append(unprovedSeen, ob.Name+" ["+ob.Status+"] key: "+obLineKey(e.RepoDir, ob))
				o.Status = "not-covered(" + ob.Status + ")"
				all = append(all, o)
				continue
			}
			nOb++
			byKind[ob.Kind]++
			all = append(all, o)
			if ob.Status == "discharged" {
				nDis++
				byBackend[ob.Backend]++
				if ob.TimeS > 2 {
					slow = append(slow, o)
				}
			} else {
				failures = append(failures, &failure{rep: rep, ob: ob})
			}
		}
	}
	// report
	for _, l := range knownLines {
		fmt.Println(l)
	}
	rc := 0
	violations := 0
	for _, f := range failures {
		violations++
		path := writeReplay(e, verif, id, f)
		suffix := ""
		if !f.reproduced {
			suffix = " no-failing-input-found"
		}
		fmt.Printf("VIOLATION property=%s replay=%s obligation=%s%s\n", id, path, f.ob.Name, suffix)
		rc = 1
	}
	if len(faults) > 0 {
		for _, f := range faults {
			fmt.Printf("ENGINE-FAULT %s: %s\n", id, f)
		}
		if rc == 0 {
			rc = 2
		}
	}
	// evidence
	var samples []obOut
	for i, o := range all {
		if i%max(1, len(all)/8) == 0 && len(samples) < 10 {
			samples = append(samples, o)
		}
	}
	var trusted []string
	trusted = append(trusted, "govc VC generator (this repository's /verif/govc) and golang.org/x/tools/go/ssa v0.29.0 naive-form SSA as the semantics of the Go source",
		"SMT solvers: z3 5.1.0 (z3-new), z3 4.8.12, cvc5 1.0.3")
	var al []string
	for a := range assumed {
		al = append(al, a)
	}
	sort.Strings(al)
	trusted = append(trusted, al...)
	sort.Strings(funcs)
	cov := map[string]any{
		"obligations":              nOb,
		"discharged":               nDis,
		"checker_cmd":              engine.SolverVersions(),
		"trusted_base":             trusted,
		"samples":                  samples,
		"functions_under_contract": funcs,
		"obligations_by_kind":      byKind,
		"discharged_by_backend":    byBackend,
		"vacuity_canaries_sat":     nVac,
		"solver_time_s":            map[string]any{"sum": round2(solverSum), "max_function": round2(solverMax)},
		"slow_obligations":         slow,
		"second_opinion":           map[string]any{"tier": tier, "confirmed_unsat_by_another_back_end": secondConfirmed, "no_answer_from_other_back_ends": secondUnknown},
		"known_findings":           knownLines,
		"not_covered":              cfg.NotCovered,
		"not_covered_obligations":  unprovedSeen,
		"bounded":                  cfg.Bounded,
		"load_s":                   round2(loadS),
		"obligations_of_other_properties_skipped": nSkipped,
		"all_obligations":          all,
	}
	ev := map[string]any{
		"property_id": id,
		"tier":        tier,
		"seed":        seed,
		"level":       "proof",
		"coverage":    cov,
		"assumptions": al,
		"wall_s":      round2(time.Since(start).Seconds() + loadS),
		"violations":  violations,
	}
	os.MkdirAll(filepath.Join(verif, "evidence"), 0o755)
	out, _ := json.MarshalIndent(ev, "", " ")
	os.WriteFile(filepath.Join(verif, "evidence", id+".json"), out, 0o644)
	fmt.Printf("%s: %d obligations, %d discharged, %d known findings, %d not covered, %d violations, %d faults (%.1fs)\n", id, nOb, nDis, len(knownLines), nUnproved, violations, len(faults), time.Since(start).Seconds()+loadS)
	return rc
}

func round2(f float64) float64 { return float64(int(f*100+0.5)) / 100 }

// expandKey lets property files abbreviate the module path as "~".
func expandKey(k string) string {
	return strings.ReplaceAll(k, "~", "github.com/verily-src/fhirpath-go")
}

type failure struct {
	rep        *engine.FuncReport
	ob         *engine.Obligation
	reproduced bool
	replayOut  string
}

func writeReplay(e *engine.Engine, verif, id string, f *failure) string {
	dir := filepath.Join(verif, "replays", id)
	os.MkdirAll(dir, 0o755)
	name := strings.NewReplacer("/", "_", "#", "_", " ", "_", "*", "").Replace(f.ob.Name)
	path := filepath.Join(dir, name+".json")
	rec := map[string]any{
		"property":      id,
		"obligation":    f.ob.Name,
		"kind":          f.ob.Kind,
		"clause":        f.ob.Text,
		"position":      f.ob.Pos,
		"status":        f.ob.Status,
		"backend":       f.ob.Backend,
		"solver_output": truncate(f.ob.Output, 20000),
	}
	if f.rep != nil {
		rec["function"] = f.rep.Key
		if f.ob.Status == "refuted" {
			tryReplay(e, f, rec)
		} else if f.ob.Status == "undischarged" && f.ob.Model != "" {
			// a candidate model found under weakened hypotheses: only a confirmed replay counts
			rec["candidate_model_note"] = "no back end decided the obligation; the inputs below are a candidate found under the quantifier-free hypotheses only and count only if the replay on the real code confirms them"
			tryReplay(e, f, rec)
		}
	}
	if !f.reproduced {
		rec["verdict"] = "no-failing-input-found: " + fmt.Sprint(rec["replay_note"])
	}
	out, _ := json.MarshalIndent(rec, "", " ")
	os.WriteFile(path, out, 0o644)
	return path
}

func truncate(s string, n int) string {
	if len(s) > n {
		return s[:n] + "…"
	}
	return s
}

func cmdReplay(args []string) int {
	if len(args) < 1 {
		return 2
	}
	data, err := os.ReadFile(args[0])
	if err != nil {
		fmt.Println(err)
		return 2
	}
	var rec map[string]any
	json.Unmarshal(data, &rec)
	fmt.Printf("obligation: %v\nclause: %v\nverdict: %v\n", rec["obligation"], rec["clause"], rec["verdict"])
	if t, ok := rec["replay_test"].(string); ok {
		out, ok2 := runReplayTest("/repo", fmt.Sprint(rec["replay_pkg_dir"]), t)
		fmt.Println(out)
		if ok2 {
			return 0
		}
		return 1
	}
	return 0
}

func cmdSelftest(args []string) int { return 2 }

var witnessCache = map[string]bool{}

// witnessStillFails replays a known finding's recorded witness against the real code.
func witnessStillFails(e *engine.Engine, kf KnownFinding) bool {
	if kf.WitnessExpr == "" {
		return true
	}
	ckey := fmt.Sprintf("%s|%v", kf.WitnessExpr, kf.WitnessOnPatient)
	if v, ok := witnessCache[ckey]; ok {
		return v
	}
	test := fmt.Sprintf(`package fhirpath_test

import (
	"fmt"
	"testing"

	ppb "github.com/google/fhir/go/proto/google/fhir/proto/r4/core/resources/patient_go_proto"
	"github.com/verily-src/fhirpath-go/fhirpath"
	"github.com/verily-src/fhirpath-go/internal/fhir"
)

var _ = ppb.Patient{}

func TestVerifReplay(t *testing.T) {
	defer func() {
		if r := recover(); r != nil {
			fmt.Printf("VERIF-WITNESS panic: %%v\n", r)
		}
	}()
	e, err := fhirpath.Compile(%q)
	if err != nil {
		fmt.Printf("VERIF-WITNESS compile-error: %%v\n", err)
		return
	}
	input := []fhir.Resource{}
	if %v {
		input = append(input, &ppb.Patient{})
	}
	got, err := e.Evaluate(input)
	if err != nil {
		fmt.Printf("VERIF-WITNESS error: %%v\n", err)
		return
	}
	fmt.Printf("VERIF-WITNESS %%v\n", got)
}
`, kf.WitnessExpr, kf.WitnessOnPatient)
	out, _ := engine.RunOverlayTest(e.RepoDir, "fhirpath", test)
	got := ""
	for _, l := range strings.Split(out, "\n") {
		if i := strings.Index(l, "VERIF-WITNESS "); i >= 0 {
			got = strings.TrimSpace(l[i+len("VERIF-WITNESS "):])
		}
	}
	fails := got != kf.WitnessWant
	witnessCache[ckey] = fails
	return fails
}

// obLineKey names an obligation by function, kind and the text of its source line instead of
// its ordinal: `pkg.Func#kind@<trimmed source line>`. Entries of "unproved" written this way
// keep pointing at the same expression when an unrelated edit adds or removes an earlier
// obligation of the same kind in the function (which renumbers the ordinals).
var srcCache = map[string][]string{}

func obLineKey(repo string, ob *engine.Obligation) string {
	i := strings.LastIndex(ob.Pos, ":")
	if i < 0 {
		return ""
	}
	file := ob.Pos[:i]
	var line int
	fmt.Sscanf(ob.Pos[i+1:], "%d", &line)
	lines, ok := srcCache[file]
	if !ok {
		data, err := os.ReadFile(repo + "/" + file)
		if err == nil {
			lines = strings.Split(string(data), "\n")
		}
		srcCache[file] = lines
	}
	if line < 1 || line > len(lines) {
		return ""
	}
	name := ob.Name
	if j := strings.LastIndex(name, "."); j > strings.Index(name, "#") && strings.Index(name, "#") >= 0 {
		name = name[:j]
	}
	return name + "@" + strings.TrimSpace(lines[line-1])
}
