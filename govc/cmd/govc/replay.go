package main

import (
	"govc/engine"
)

// tryReplay renders the solver's counterexample as a Go test against the real code
// (go test -overlay, nothing written to /repo) and records the outcome.
func tryReplay(e *engine.Engine, f *failure, rec map[string]any) {
	res := engine.Replay(e, f.rep, f.ob)
	rec["model_inputs"] = res.Inputs
	rec["replay_note"] = res.Note
	if res.Test != "" {
		rec["replay_test"] = res.Test
		rec["replay_pkg_dir"] = res.PkgDir
		rec["replay_output"] = res.Output
	}
	f.reproduced = res.Reproduced
	if res.Reproduced {
		rec["verdict"] = "reproduced on the real code: " + res.Note
	}
}

func runReplayTest(repo, pkgDir, test string) (string, bool) {
	return engine.RunOverlayTest(repo, pkgDir, test)
}
