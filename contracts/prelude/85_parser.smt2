; Parse-tree facts used by the visitor contracts (C01: Compile). The ANTLR parser is a
; dependency; that a tree returned by compile.Tree (no syntax error) has the shape of the
; grammar is assumed (contracts/ext/grammar.spec) and sampled by ./check conformance.
; treeKind: what visiting the node yields: 1 = *VisitResult (expression, term, invocation,
; literal, function), 2 = *typeResult (typeSpecifier), 3 = []*VisitResult (paramList),
; 4 = []string (qualifiedIdentifier)
(declare-fun treeKind (Any) Int)
; the i-th child of a rule context (by the context's pointer) and the text of a node / context
(declare-fun childOf (Int Int) Any)
(declare-fun nodeText (Any) String)
(declare-fun ctxText (Int) String)
; g4op_<label>(s): s is one of the operator tokens of the grammar alternative #label; these are
; GENERATED from /repo/fhirpath/internal/grammar/fhirpath.g4 on every run (engine/load.go)
; wfExprP(e): "e was published by a Visit method" - the induction hypothesis of the tree walk;
; uninterpreted: it is only ever obtained from the (trusted) dispatch contract of Visit and from
; the assumed contract of the transform, and established nowhere else
(declare-fun wfExprP (Any) Bool)
; named results of the generated accessors of a function-call node: its identifier node, its
; (optional) parameter-list node, and the number of argument expressions of a parameter list
; (by tree value, and by the pointer of the ParamListContext)
(declare-fun g4Ident (Int) Any)
(declare-fun g4ParamList (Int) Any)
(declare-fun g4NParams (Any) Int)
(declare-fun g4NParamsP (Int) Int)
(assert (forall ((t Any)) (! (>= (g4NParams t) 0) :pattern ((g4NParams t)))))
