;@ uses-type reflection.TypeSpecifier
; FHIR / System type hierarchy (C12), written from the property statement. The registries of
; the linked google/fhir version are uninterpreted predicates on names.
(declare-fun isElemS (String) Bool)   ; reflection.IsValidFHIRPathElement: primitive or datatype name (incl. BackboneElement)
(declare-fun isResS (String) Bool)    ; protofields.IsValidResourceType
(declare-fun isSysS (String) Bool)    ; system.IsValid
(define-fun tsNs ((t S_reflection_TypeSpecifier)) String (S_reflection_TypeSpecifier_namespace t))
(define-fun tsName ((t S_reflection_TypeSpecifier)) String (S_reflection_TypeSpecifier_typeName t))
(define-fun mkTS ((ns String) (n String)) S_reflection_TypeSpecifier (mk_S_reflection_TypeSpecifier ns n))
; the direct supertype
(define-fun parentS ((t S_reflection_TypeSpecifier)) S_reflection_TypeSpecifier
  (let ((n (tsName t)))
  (ite (= (tsNs t) "System") (mkTS "System" "Any")
  (ite (or (= n "code") (= n "markdown") (= n "id")) (mkTS "FHIR" "string")
  (ite (or (= n "unsignedInt") (= n "positiveInt")) (mkTS "FHIR" "integer")
  (ite (or (= n "url") (= n "canonical") (= n "uuid") (= n "oid")) (mkTS "FHIR" "uri")
  (ite (or (= n "Duration") (= n "MoneyQuantity") (= n "Age") (= n "Count") (= n "Distance") (= n "SimpleQuantity")) (mkTS "FHIR" "Quantity")
  (ite (or (= n "Timing") (= n "Dosage") (= n "ElementDefinition")) (mkTS "FHIR" "BackboneElement")
  (ite (or (= n "Bundle") (= n "Binary") (= n "Parameters") (= n "DomainResource")) (mkTS "FHIR" "Resource")
  (ite (or (= n "Element") (= n "Resource")) t
  (ite (isElemS n) (mkTS "FHIR" "Element")
  (ite (isResS n) (mkTS "FHIR" "DomainResource")
       ; anything else names a nested backbone component of a resource
       (mkTS "FHIR" "BackboneElement")))))))))))))
; t is u or derives from u (the hierarchy is at most 3 levels deep below a root)
(define-fun isaS ((t S_reflection_TypeSpecifier) (u S_reflection_TypeSpecifier)) Bool
  (and (= (tsNs t) (tsNs u))
       (or (= (tsName t) (tsName u))
           (= (tsName (parentS t)) (tsName u))
           (= (tsName (parentS (parentS t))) (tsName u))
           (= (tsName (parentS (parentS (parentS t)))) (tsName u)))))
; distance to the root of the hierarchy (termination measure of TypeSpecifier.Is)
(define-fun rankS ((t S_reflection_TypeSpecifier)) Int
  (ite (= (parentS t) t) 0 (ite (= (parentS (parentS t)) (parentS t)) 1 (ite (= (parentS (parentS (parentS t))) (parentS (parentS t))) 2 3))))
; registry facts. Primitive names and BackboneElement are accepted by reflection.isPrimitive /
; IsValidFHIRPathElement by construction (proved as that function's postcondition); that
; Quantity is a datatype, that no name is both a datatype and a resource, and that the three
; abstract base names are in neither registry are ASSUMED facts about the google/fhir R4 data.
(assert (and (isElemS "string") (isElemS "integer") (isElemS "uri") (isElemS "code") (isElemS "markdown") (isElemS "id")
             (isElemS "unsignedInt") (isElemS "positiveInt") (isElemS "url") (isElemS "canonical") (isElemS "uuid") (isElemS "oid")
             (isElemS "boolean") (isElemS "decimal") (isElemS "date") (isElemS "dateTime") (isElemS "time") (isElemS "instant") (isElemS "base64Binary")
             (isElemS "BackboneElement") (isElemS "Quantity")))
(assert (forall ((n String)) (! (=> (isElemS n) (not (isResS n))) :pattern ((isElemS n)))))
(assert (and (not (isElemS "Element")) (not (isElemS "Resource")) (not (isElemS "DomainResource"))
             (not (isResS "Element")) (not (isResS "Resource")) (not (isResS "DomainResource")) (not (isResS "BackboneElement"))))
; System type name of a System value (the Name() methods)
(define-fun sysNameS ((x Any)) String
  (ite ((_ is b_system_Boolean) x) "Boolean" (ite ((_ is b_system_String) x) "String" (ite ((_ is b_system_Integer) x) "Integer"
  (ite ((_ is b_system_Decimal) x) "Decimal" (ite ((_ is b_system_Date) x) "Date" (ite ((_ is b_system_DateTime) x) "DateTime"
  (ite ((_ is b_system_Time) x) "Time" "Quantity"))))))))
; reflection.TypeOf and protofields.UnwrapOneofField(_, "choice") as deterministic functions
(declare-fun typeOfS (Any) S_reflection_TypeSpecifier)
(declare-fun typeOfOk (Any) Bool)
(declare-fun choiceOfS (Any) Any)
; C17: the answer of evalopts.validateType on a value (named; defined by that function's contract)
(declare-fun envOk (Any) Bool)
