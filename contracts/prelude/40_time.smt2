;@ uses-type system.Date system.DateTime system.Time
; time.Time as an abstract record: an instant (ns since the epoch, mathematical integer), a zone
; offset (seconds east of UTC) and the civil fields of the instant in that zone.
(declare-fun tInst (Time) Int)
(declare-fun tOff (Time) Int)
(declare-fun tY (Time) Int)
(declare-fun tMo (Time) Int)
(declare-fun tD (Time) Int)
(declare-fun tH (Time) Int)
(declare-fun tMi (Time) Int)
(declare-fun tS (Time) Int)
(declare-fun tNs (Time) Int)
(declare-fun daysIn (Int Int) Int)   ; days in month m of year y (proleptic Gregorian): uninterpreted, 28..31
(assert (forall ((y Int) (m Int)) (! (and (<= 28 (daysIn y m)) (<= (daysIn y m) 31)) :pattern ((daysIn y m)))))
(define-fun civRanges ((t Time)) Bool
  (and (<= 1 (tMo t)) (<= (tMo t) 12) (<= 1 (tD t)) (<= (tD t) 31) (<= 0 (tH t)) (<= (tH t) 23)
       (<= 0 (tMi t)) (<= (tMi t) 59) (<= 0 (tS t)) (<= (tS t) 59) (<= 0 (tNs t)) (<= (tNs t) 999999999)
       (<= (- 292277022399) (tY t)) (<= (tY t) 292277026596)))
; one integer that orders civil field tuples lexicographically (given civRanges)
(define-fun civKey ((t Time)) Int
  (+ (* (+ (* (+ (* (+ (* (+ (* (+ (* (tY t) 13) (tMo t)) 32) (tD t)) 24) (tH t)) 60) (tMi t)) 60) (tS t)) 1000000000) (tNs t)))
; ASSUMED (proleptic Gregorian calendar, no leap seconds: package time): at equal zone offset the
; order of instants is the lexicographic order of the civil fields
(assert (forall ((a Time) (b Time)) (! (=> (and (= (tOff a) (tOff b)) (civRanges a) (civRanges b))
   (and (= (< (tInst a) (tInst b)) (< (civKey a) (civKey b))) (= (= (tInst a) (tInst b)) (= (civKey a) (civKey b)))))
   :pattern ((tInst a) (tInst b)))))
; layouts -> precision ranks (taken from system/layouts.go constants; the maps themselves are
; proved equal to these by the package initialiser's global invariants)
(define-fun datePrec ((l String)) Int (ite (= l "2006") 0 (ite (= l "2006-01") 1 (ite (= l "2006-01-02") 2 (- 1)))))
(define-fun timePrec ((l String)) Int (ite (= l "15") 0 (ite (= l "15:04") 1 (ite (or (= l "15:04:05") (= l "15:04:05.000")) 2 (- 1)))))
(define-fun dtPrec ((l String)) Int
  (ite (= l "2006T") 0 (ite (= l "2006-01T") 1 (ite (= l "2006-01-02T") 2
  (ite (or (= l "2006-01-02T15Z07:00") (= l "2006-01-02T15")) 3
  (ite (or (= l "2006-01-02T15:04Z07:00") (= l "2006-01-02T15:04")) 4
  (ite (or (= l "2006-01-02T15:04:05Z07:00") (= l "2006-01-02T15:04:05") (= l "2006-01-02T15:04:05.000Z07:00") (= l "2006-01-02T15:04:05.000")) 5 (- 1))))))))
; component i of a civil time, in the order the code compares them
(define-fun dComp ((t Time) (i Int)) Int (ite (= i 0) (tY t) (ite (= i 1) (tMo t) (tD t))))
(define-fun tComp ((t Time) (i Int)) Int (ite (= i 0) (tH t) (ite (= i 1) (tMi t) (+ (* (tS t) 1000000000) (tNs t)))))
(define-fun dtComp ((t Time) (i Int)) Int
  (ite (= i 0) (tY t) (ite (= i 1) (tMo t) (ite (= i 2) (tD t) (ite (= i 3) (tH t) (ite (= i 4) (tMi t) (+ (* (tS t) 1000000000) (tNs t))))))))
; three-way comparison outcomes: -1 less, 0 equal, 1 greater, 2 empty (precision mismatch), 3 error
(define-fun CMP_LT () Int (- 1))
(define-fun CMP_EQ () Int 0)
(define-fun CMP_GT () Int 1)
(define-fun CMP_EMPTY () Int 2)
(define-fun CMP_ERR () Int 3)
(define-fun cmpI ((a Int) (b Int)) Int (ite (< a b) (- 1) (ite (= a b) 0 1)))
; reference comparison of two Dates: component-wise down to the shared precision; empty exactly
; when all shared components are equal but the precisions differ
(define-fun cmpDate ((a Time) (la String) (b Time) (lb String)) Int
  (let ((p (ite (< (datePrec la) (datePrec lb)) (datePrec la) (datePrec lb))))
    (ite (not (= (tY a) (tY b))) (cmpI (tY a) (tY b))
    (ite (< p 1) (ite (= (datePrec la) (datePrec lb)) 0 2)
    (ite (not (= (tMo a) (tMo b))) (cmpI (tMo a) (tMo b))
    (ite (< p 2) (ite (= (datePrec la) (datePrec lb)) 0 2)
    (cmpI (tD a) (tD b))))))))
; type invariant of system.Date: UTC, midnight, fields below the precision at their defaults
(define-fun validDateT ((t Time) (l String)) Bool
  (and (>= (datePrec l) 0) (= (tOff t) 0) (civRanges t) (<= (tD t) (daysIn (tY t) (tMo t))) (= (tH t) 0) (= (tMi t) 0) (= (tS t) 0) (= (tNs t) 0)
       (=> (< (datePrec l) 1) (= (tMo t) 1)) (=> (< (datePrec l) 2) (= (tD t) 1))))
; the same instant seen in UTC
(declare-fun utcT (Time) Time)
(assert (forall ((t Time)) (! (and (= (tInst (utcT t)) (tInst t)) (= (tOff (utcT t)) 0) (civRanges (utcT t))
    (=> (= (tOff t) 0) (and (= (tY (utcT t)) (tY t)) (= (tMo (utcT t)) (tMo t)) (= (tD (utcT t)) (tD t)) (= (tH (utcT t)) (tH t))
                            (= (tMi (utcT t)) (tMi t)) (= (tS (utcT t)) (tS t)) (= (tNs (utcT t)) (tNs t)))))
   :pattern ((utcT t)))))
; ASSUMED: a zone offset that is a whole number of hours (minutes) leaves the minute and
; second (second) fields of the UTC view unchanged
(assert (forall ((t Time)) (! (and
    (=> (= (mod (tOff t) 3600) 0) (= (tMi (utcT t)) (tMi t)))
    (=> (= (mod (tOff t) 60) 0) (and (= (tS (utcT t)) (tS t)) (= (tNs (utcT t)) (tNs t)))))
   :pattern ((utcT t)))))
; generic component-wise comparison of n+1 components c(0..p), "sec" = index of the seconds
; component (always decisive: sub-second precision is irrelevant)
(define-fun cmpLevels ((a0 Int) (b0 Int) (a1 Int) (b1 Int) (a2 Int) (b2 Int) (a3 Int) (b3 Int) (a4 Int) (b4 Int) (a5 Int) (b5 Int) (p Int) (same Bool) (sec Int)) Int
  (ite (or (not (= a0 b0)) (= sec 0)) (cmpI a0 b0)
  (ite (< p 1) (ite same 0 2)
  (ite (or (not (= a1 b1)) (= sec 1)) (cmpI a1 b1)
  (ite (< p 2) (ite same 0 2)
  (ite (or (not (= a2 b2)) (= sec 2)) (cmpI a2 b2)
  (ite (< p 3) (ite same 0 2)
  (ite (or (not (= a3 b3)) (= sec 3)) (cmpI a3 b3)
  (ite (< p 4) (ite same 0 2)
  (ite (or (not (= a4 b4)) (= sec 4)) (cmpI a4 b4)
  (ite (< p 5) (ite same 0 2)
  (cmpI a5 b5))))))))))))
(define-fun minI ((a Int) (b Int)) Int (ite (< a b) a b))
; reference comparison of two Times of day
(define-fun cmpTime ((a Time) (la String) (b Time) (lb String)) Int
  (cmpLevels (tH a) (tH b) (tMi a) (tMi b) (+ (* (tS a) 1000000000) (tNs a)) (+ (* (tS b) 1000000000) (tNs b)) 0 0 0 0 0 0
             (minI (timePrec la) (timePrec lb)) (= (timePrec la) (timePrec lb)) 2))
; reference comparison of two DateTimes: after normalisation to UTC
(define-fun cmpDT ((a Time) (la String) (b Time) (lb String)) Int
  (cmpLevels (tY (utcT a)) (tY (utcT b)) (tMo (utcT a)) (tMo (utcT b)) (tD (utcT a)) (tD (utcT b)) (tH (utcT a)) (tH (utcT b))
             (tMi (utcT a)) (tMi (utcT b)) (+ (* (tS (utcT a)) 1000000000) (tNs (utcT a))) (+ (* (tS (utcT b)) 1000000000) (tNs (utcT b)))
             (minI (dtPrec la) (dtPrec lb)) (= (dtPrec la) (dtPrec lb)) 5))
; type invariants: fields below the precision are at their defaults
(define-fun validTimeT ((t Time) (l String)) Bool
  (and (>= (timePrec l) 0) (= (tOff t) 0) (civRanges t) (= (tY t) 0) (= (tMo t) 1) (= (tD t) 1)
       (=> (< (timePrec l) 1) (= (tMi t) 0)) (=> (< (timePrec l) 2) (and (= (tS t) 0) (= (tNs t) 0)))))
(define-fun validDTT ((t Time) (l String)) Bool
  (and (>= (dtPrec l) 0) (civRanges t) (civRanges (utcT t)) (<= (tD t) (daysIn (tY t) (tMo t)))
       (=> (< (dtPrec l) 3) (= (tOff t) 0))
       ; zone offsets are whole minutes; at hour precision the claim covers whole-hour offsets
       (= (mod (tOff t) 60) 0) (=> (= (dtPrec l) 3) (= (mod (tOff t) 3600) 0))
       (=> (< (dtPrec l) 1) (= (tMo t) 1)) (=> (< (dtPrec l) 2) (= (tD t) 1)) (=> (< (dtPrec l) 3) (= (tH t) 0))
       (=> (< (dtPrec l) 4) (= (tMi t) 0)) (=> (< (dtPrec l) 5) (and (= (tS t) 0) (= (tNs t) 0)))))
; ---- C09: unit tables --------------------------------------------------------------------
(define-fun NS_HOUR () Int 3600000000000)
(define-fun NS_MIN () Int 60000000000)
(define-fun NS_SEC () Int 1000000000)
(define-fun NS_MS () Int 1000000)
; duration of one unit of a Time precision (hour, minute, second)
(define-fun timeUnitNs ((p Int)) Int (ite (= p 0) 3600000000000 (ite (= p 1) 60000000000 1)))
; duration of one unit of a DateTime precision; 1 year = 365 days, 1 month = 30 days
(define-fun dtUnitNs ((p Int)) Int
  (ite (= p 0) (* 365 86400000000000) (ite (= p 1) (* 30 86400000000000) (ite (= p 2) 86400000000000
  (ite (= p 3) 3600000000000 (ite (= p 4) 60000000000 1))))))
; calendar keywords (singular and plural)
(define-fun isUnit ((u String) (s String)) Bool (or (= u s) (= u (str.++ s "s"))))
(define-fun isTimeUnit ((u String)) Bool (or (isUnit u "hour") (isUnit u "minute") (isUnit u "second") (isUnit u "millisecond")))
(define-fun isCalUnit ((u String)) Bool (or (isUnit u "year") (isUnit u "month") (isUnit u "week") (isUnit u "day") (isTimeUnit u)))
; whole years / months represented by an amount in a unit (statement: 12 months, 7-day weeks,
; 365-day years, 30-day months, fractions dropped); v = the amount with its fraction dropped
(define-fun yearsOf ((u String) (v Int)) Int
  (ite (isUnit u "year") v (ite (isUnit u "month") (tdiv v 12) (ite (isUnit u "week") (tdiv (* v 7) 365) (ite (isUnit u "day") (tdiv v 365)
  (ite (isUnit u "hour") (tdiv v 8760) (ite (isUnit u "minute") (tdiv v 525600) (ite (isUnit u "second") (tdiv v 31536000)
  (tdiv (tdiv v 31536000) 1000)))))))))
(define-fun monthsOf ((u String) (v Int)) Int
  (ite (isUnit u "year") (* v 12) (ite (isUnit u "month") v (ite (isUnit u "week") (tdiv (* v 7) 30) (ite (isUnit u "day") (tdiv v 30)
  (ite (isUnit u "hour") (tdiv v 720) (ite (isUnit u "minute") (tdiv v 43200) (ite (isUnit u "second") (tdiv v 2592000)
  (tdiv (tdiv v 2592000) 1000)))))))))
; ---- C09: calendar arithmetic at civil-field level ---------------------------------------------
; month arithmetic: year and month reached from (y, mo) by adding n months
(define-fun monthIdx ((y Int) (mo Int) (n Int)) Int (+ (* y 12) (- mo 1) n))
(define-fun yearAfter ((y Int) (mo Int) (n Int)) Int (div (monthIdx y mo n) 12))
(define-fun monthAfter ((y Int) (mo Int) (n Int)) Int (+ (mod (monthIdx y mo n) 12) 1))
; time of day in nanoseconds; ASSUMED: for a UTC value it is the instant modulo one day (the
; epoch is a midnight, no leap seconds)
(define-fun todNs ((t Time)) Int (+ (* (tH t) 3600000000000) (* (tMi t) 60000000000) (* (tS t) 1000000000) (tNs t)))
(assert (forall ((t Time)) (! (=> (and (= (tOff t) 0) (civRanges t)) (= (todNs t) (mod (tInst t) 86400000000000))) :pattern ((tInst t) (tOff t)))))
(define-fun sameTimeOfDay ((a Time) (b Time)) Bool
  (and (= (tH a) (tH b)) (= (tMi a) (tMi b)) (= (tS a) (tS b)) (= (tNs a) (tNs b)) (= (tOff a) (tOff b))))
; ---- time.Format / time.Parse round trip (ASSUMED): formatting a value with one of the
; DateTime layouts and parsing it back truncates it to the layout's precision ----------------------
(declare-fun fmtS (Time String) String)
(declare-fun parseOkS (String String) Bool)
(declare-fun parseS (String String) Time)
(declare-fun truncDT (Time Int) Time)
(assert (forall ((t Time) (l String)) (! (=> (>= (dtPrec l) 0)
    (and (parseOkS l (fmtS t l)) (= (parseS l (fmtS t l)) (truncDT t (dtPrec l)))))
   :pattern ((fmtS t l)))))
(assert (forall ((t Time) (p Int)) (! (=> (civRanges t)
    (and (civRanges (truncDT t p)) (civRanges (utcT (truncDT t p))) (= (tOff (truncDT t p)) (tOff t)) (= (tY (truncDT t p)) (tY t))
         (= (tMo (truncDT t p)) (ite (>= p 1) (tMo t) 1)) (= (tD (truncDT t p)) (ite (>= p 2) (tD t) 1))
         (= (tH (truncDT t p)) (ite (>= p 3) (tH t) 0)) (= (tMi (truncDT t p)) (ite (>= p 4) (tMi t) 0))
         (= (tS (truncDT t p)) (ite (>= p 5) (tS t) 0)) (=> (< p 5) (= (tNs (truncDT t p)) 0))
         ; a value that has nothing below the precision is unchanged
         (=> (and (=> (< p 1) (= (tMo t) 1)) (=> (< p 2) (= (tD t) 1)) (=> (< p 3) (= (tH t) 0)) (=> (< p 4) (= (tMi t) 0))
                  (=> (< p 5) (and (= (tS t) 0) (= (tNs t) 0))))
             (=> (< p 5) (= (tInst (truncDT t p)) (tInst t))))))
   :pattern ((truncDT t p)))))
; time of day of an instant in microseconds, in UTC: what a FHIR Time element stores
(define-fun todUs ((t Time)) Int (mod (div (tInst t) 1000) 86400000000))
; ASSUMED (package time: unix time, no leap seconds): in UTC the instant modulo one day is the
; civil time of day
(assert (forall ((t Time)) (! (=> (and (= (tOff t) 0) (civRanges t))
    (= (mod (tInst t) 86400000000000) (+ (* (+ (* (+ (* (tH t) 60) (tMi t)) 60) (tS t)) 1000000000) (tNs t))))
   :pattern ((tInst t) (tH t)))))
; names for results the time package decides (zone text of a Time, offset a zone text denotes,
; offset of a *time.Location at an instant)
(declare-fun tzS (Time) String)
(declare-fun zoneOffS (Int) Int)
(declare-fun locOff (Int Int) Int)
; a time of day after moving by x nanoseconds: wrapped into [0, 24h)
(define-fun wrapDayNs ((x Int)) Int (mod x 86400000000000))
