;@ uses-type system.Date system.DateTime system.Time
; time.Time as an abstract record: an instant (ns since the epoch, mathematical integer), a zone
; offset (seconds east of UTC) and the civil fields of the instant in that zone.
(declare-fun tInst (Time) Int)
(declare-fun tOff (Time) Int)
(declare-fun tY (Time) Int)
(declare-fun tMo (Time) Int)
(declare-fun tD (Time) Int)
(declare-fun tH (Time) Int)
(declare-fun tMi (Time) Int)
(declare-fun tS (Time) Int)
(declare-fun tNs (Time) Int)
(define-fun civRanges ((t Time)) Bool
  (and (<= 1 (tMo t)) (<= (tMo t) 12) (<= 1 (tD t)) (<= (tD t) 31) (<= 0 (tH t)) (<= (tH t) 23)
       (<= 0 (tMi t)) (<= (tMi t) 59) (<= 0 (tS t)) (<= (tS t) 59) (<= 0 (tNs t)) (<= (tNs t) 999999999)
       (<= (- 292277022399) (tY t)) (<= (tY t) 292277026596)))
; one integer that orders civil field tuples lexicographically (given civRanges)
(define-fun civKey ((t Time)) Int
  (+ (* (+ (* (+ (* (+ (* (+ (* (+ (* (tY t) 13) (tMo t)) 32) (tD t)) 24) (tH t)) 60) (tMi t)) 60) (tS t)) 1000000000) (tNs t)))
; ASSUMED (proleptic Gregorian calendar, no leap seconds: package time): at equal zone offset the
; order of instants is the lexicographic order of the civil fields
(assert (forall ((a Time) (b Time)) (! (=> (and (= (tOff a) (tOff b)) (civRanges a) (civRanges b))
   (and (= (< (tInst a) (tInst b)) (< (civKey a) (civKey b))) (= (= (tInst a) (tInst b)) (= (civKey a) (civKey b)))))
   :pattern ((tInst a) (tInst b)))))
; layouts -> precision ranks (taken from system/layouts.go constants; the maps themselves are
; proved equal to these by the package initialiser's global invariants)
(define-fun datePrec ((l String)) Int (ite (= l "2006") 0 (ite (= l "2006-01") 1 (ite (= l "2006-01-02") 2 (- 1)))))
(define-fun timePrec ((l String)) Int (ite (= l "15") 0 (ite (= l "15:04") 1 (ite (or (= l "15:04:05") (= l "15:04:05.000")) 2 (- 1)))))
(define-fun dtPrec ((l String)) Int
  (ite (= l "2006T") 0 (ite (= l "2006-01T") 1 (ite (= l "2006-01-02T") 2
  (ite (or (= l "2006-01-02T15Z07:00") (= l "2006-01-02T15")) 3
  (ite (or (= l "2006-01-02T15:04Z07:00") (= l "2006-01-02T15:04")) 4
  (ite (or (= l "2006-01-02T15:04:05Z07:00") (= l "2006-01-02T15:04:05") (= l "2006-01-02T15:04:05.000Z07:00") (= l "2006-01-02T15:04:05.000")) 5 (- 1))))))))
; component i of a civil time, in the order the code compares them
(define-fun dComp ((t Time) (i Int)) Int (ite (= i 0) (tY t) (ite (= i 1) (tMo t) (tD t))))
(define-fun tComp ((t Time) (i Int)) Int (ite (= i 0) (tH t) (ite (= i 1) (tMi t) (+ (* (tS t) 1000000000) (tNs t)))))
(define-fun dtComp ((t Time) (i Int)) Int
  (ite (= i 0) (tY t) (ite (= i 1) (tMo t) (ite (= i 2) (tD t) (ite (= i 3) (tH t) (ite (= i 4) (tMi t) (+ (* (tS t) 1000000000) (tNs t))))))))
; three-way comparison outcomes: -1 less, 0 equal, 1 greater, 2 empty (precision mismatch), 3 error
(define-fun CMP_LT () Int (- 1))
(define-fun CMP_EQ () Int 0)
(define-fun CMP_GT () Int 1)
(define-fun CMP_EMPTY () Int 2)
(define-fun CMP_ERR () Int 3)
(define-fun cmpI ((a Int) (b Int)) Int (ite (< a b) (- 1) (ite (= a b) 0 1)))
; reference comparison of two Dates: component-wise down to the shared precision; empty exactly
; when all shared components are equal but the precisions differ
(define-fun cmpDate ((a Time) (la String) (b Time) (lb String)) Int
  (let ((p (ite (< (datePrec la) (datePrec lb)) (datePrec la) (datePrec lb))))
    (ite (not (= (tY a) (tY b))) (cmpI (tY a) (tY b))
    (ite (< p 1) (ite (= (datePrec la) (datePrec lb)) 0 2)
    (ite (not (= (tMo a) (tMo b))) (cmpI (tMo a) (tMo b))
    (ite (< p 2) (ite (= (datePrec la) (datePrec lb)) 0 2)
    (cmpI (tD a) (tD b))))))))
; type invariant of system.Date: UTC, midnight, fields below the precision at their defaults
(define-fun validDateT ((t Time) (l String)) Bool
  (and (>= (datePrec l) 0) (= (tOff t) 0) (civRanges t) (= (tH t) 0) (= (tMi t) 0) (= (tS t) 0) (= (tNs t) 0)
       (=> (< (datePrec l) 1) (= (tMo t) 1)) (=> (< (datePrec l) 2) (= (tD t) 1))))
