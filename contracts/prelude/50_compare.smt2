;@ uses-type system.Boolean system.String system.Integer system.Decimal system.Date system.DateTime system.Time system.Quantity
; Reference model of FHIRPath equality and ordering on single System values (C05).
; Outcome encoding: CMP_LT/-1, CMP_EQ/0, CMP_GT/1, CMP_EMPTY/2, CMP_ERR/3 (incomparable types).
(define-fun isDateV ((x Any)) Bool ((_ is b_system_Date) x))
(define-fun isDateTimeV ((x Any)) Bool ((_ is b_system_DateTime) x))
(define-fun isTimeV ((x Any)) Bool ((_ is b_system_Time) x))
(define-fun isBoolV ((x Any)) Bool ((_ is b_system_Boolean) x))
(define-fun dateT ((x Any)) Time (S_system_Date_date (ub_system_Date x)))
(define-fun dateL ((x Any)) String (S_system_Date_l (ub_system_Date x)))
(define-fun dtT ((x Any)) Time (S_system_DateTime_dateTime (ub_system_DateTime x)))
(define-fun dtL ((x Any)) String (S_system_DateTime_l (ub_system_DateTime x)))
(define-fun timeT ((x Any)) Time (S_system_Time_time (ub_system_Time x)))
(define-fun timeL ((x Any)) String (S_system_Time_l (ub_system_Time x)))
(define-fun qVal ((x Any)) Real (S_system_Quantity_value (ub_system_Quantity x)))
(define-fun qUnit ((x Any)) String (S_system_Quantity_unit (ub_system_Quantity x)))
; type invariants of System values
(define-fun validSys ((x Any)) Bool
  (and (=> (isDateV x) (validDateT (dateT x) (dateL x)))
       (=> (isDateTimeV x) (validDTT (dtT x) (dtL x)))
       (=> (isTimeV x) (validTimeT (timeT x) (timeL x)))
       (=> (isInteger x) (inInt32 (intOf x)))))
; implicit promotion: Integer -> Decimal, Integer/Decimal -> Quantity with the unit '1' (FHIRPath
; N1 "Conversion": a number converts to a dimensionless quantity), Date -> DateTime
(define-fun normS ((from Any) (to Any)) Any
  (ite (and (isInteger from) (isDecimalV to)) (mkDec (to_real (intOf from)))
  (ite (and (isInteger from) (isQuantityV to)) (b_system_Quantity (mk_S_system_Quantity (to_real (intOf from)) "1"))
  (ite (and (isDecimalV from) (isQuantityV to)) (b_system_Quantity (mk_S_system_Quantity (decOf from) "1"))
  (ite (and (isDateV from) (isDateTimeV to)) (b_system_DateTime (mk_S_system_DateTime (dateT from) (str.++ (dateL from) "T")))
       from)))))
; comparison of two values of the same kind (after promotion)
(define-fun cmpSame ((a Any) (b Any)) Int
  (ite (and (isInteger a) (isInteger b)) (cmpI (intOf a) (intOf b))
  (ite (and (isDecimalV a) (isDecimalV b)) (ite (< (decOf a) (decOf b)) (- 1) (ite (= (decOf a) (decOf b)) 0 1))
  (ite (and (isStringV a) (isStringV b)) (ite (str.< (ub_system_String a) (ub_system_String b)) (- 1) (ite (= (ub_system_String a) (ub_system_String b)) 0 1))
  (ite (and (isDateV a) (isDateV b)) (cmpDate (dateT a) (dateL a) (dateT b) (dateL b))
  (ite (and (isDateTimeV a) (isDateTimeV b)) (cmpDT (dtT a) (dtL a) (dtT b) (dtL b))
  (ite (and (isTimeV a) (isTimeV b)) (cmpTime (timeT a) (timeL a) (timeT b) (timeL b))
  (ite (and (isQuantityV a) (isQuantityV b))
       (ite (not (= (qUnit a) (qUnit b))) 2 (ite (< (qVal a) (qVal b)) (- 1) (ite (= (qVal a) (qVal b)) 0 1)))
  3))))))))
; cmp3: promote, then compare
(define-fun cmp3 ((a Any) (b Any)) Int (cmpSame (normS a b) (normS b a)))
; equality: Booleans compare by value; values of different kinds are simply not equal
(define-fun eq3 ((a Any) (b Any)) Int
  (let ((x (normS a b)) (y (normS b a)))
    (ite (and (isBoolV x) (isBoolV y)) (ite (= (ub_system_Boolean x) (ub_system_Boolean y)) 0 1)
    (ite (= (cmpSame x y) 3) 1
    (ite (= (cmpSame x y) 2) 2
    (ite (= (cmpSame x y) 0) 0 1))))))
; system.IsPrimitive as a deterministic function of its argument
(declare-fun isPrimS (Any) Bool)
;@ opaque itemEq3
; equality of two collection items (Collection.TryEqual): 0 equal, 1 not equal, 2 empty
(define-fun itemEq3 ((a Any) (b Any)) Int
  (ite (not (= (isPrimS a) (isPrimS b))) 1
  (ite (not (isPrimS a)) (ite (protoEq a b) 0 1)
  (ite (or (not (fromOk a)) (not (fromOk b))) 1
       (eq3 (fromS a) (fromS b))))))
; every item is a valid System value or not a System value at all
(define-fun validSysColl ((c Slice_Any)) Bool
  (forall ((i!s Int)) (! (=> (and (<= 0 i!s) (< i!s (len_Any c)))
      (and (validSys (select (arr_Any c) i!s)) (=> (fromOk (select (arr_Any c) i!s)) (validSys (fromS (select (arr_Any c) i!s))))))
    :pattern ((select (arr_Any c) i!s)))))
; ---- C13: the eight conversion functions toT as deterministic functions of (input, args);
; k: 0 Boolean, 1 Integer, 2 Decimal, 3 String, 4 Date, 5 DateTime, 6 Time, 7 Quantity
(declare-fun toS (Int Slice_Any Slice_Any) Slice_Any)
(declare-fun toE (Int Slice_Any Slice_Any) Err)
(define-fun isKind ((k Int) (x Any)) Bool
  (ite (= k 0) (isBoolV x) (ite (= k 1) (isInteger x) (ite (= k 2) (isDecimalV x) (ite (= k 3) (isStringV x)
  (ite (= k 4) (isDateV x) (ite (= k 5) (isDateTimeV x) (ite (= k 6) (isTimeV x) (isQuantityV x)))))))))
