; Character (rune) view of Go strings (C14). A Go string is its byte sequence (SMT String over
; bytes); FHIR strings are valid UTF-8 (input domain). The character view is named by
; uninterpreted functions tied to the standard library by ASSUMED contracts (contracts/ext,
; and the engine's treatment of []rune(s) / string(runes[a:b])):
;   rlenS(s)      number of characters of s            (utf8.RuneCountInString, len([]rune(s)))
;   rsubS(s,a,b)  the characters [a,b) of s as a string (string([]rune(s)[a:b]))
(declare-fun rlenS (String) Int)
(declare-fun rsubS (String Int Int) String)
; UTF-8 facts (ASSUMED; sampled against unicode/utf8 by the thorough tier):
(assert (forall ((s String)) (! (and (<= 0 (rlenS s)) (<= (rlenS s) (str.len s)) (= (= (rlenS s) 0) (= s ""))) :pattern ((rlenS s)))))
; a character slice has b-a characters; the whole range is the string itself; empty range is ""
(assert (forall ((s String) (a Int) (b Int)) (! (=> (and (<= 0 a) (<= a b) (<= b (rlenS s)))
     (and (= (rlenS (rsubS s a b)) (- b a)) (=> (and (= a 0) (= b (rlenS s))) (= (rsubS s a b) s)) (=> (= a b) (= (rsubS s a b) ""))))
   :pattern ((rsubS s a b)))))
; adjacent character slices concatenate
(assert (forall ((s String) (a Int) (k Int) (b Int)) (! (=> (and (<= 0 a) (<= a k) (<= k b) (<= b (rlenS s)))
     (= (str.++ (rsubS s a k) (rsubS s k b)) (rsubS s a b)))
   :pattern ((rsubS s a k) (rsubS s k b)))))
; a byte prefix ending at a character boundary: the characters after it are the byte suffix.
; (strings.Index of a valid-UTF-8 pattern in a valid-UTF-8 string is such a boundary.)
(declare-fun isBoundary (String Int) Bool)
(assert (forall ((s String) (i Int)) (! (=> (and (<= 0 i) (<= i (str.len s)) (isBoundary s i))
     (= (rsubS s (rlenS (str.substr s 0 i)) (rlenS s)) (str.substr s i (- (str.len s) i))))
   :pattern ((isBoundary s i)))))
; character index of the first occurrence of t in s, -1 if none
(define-fun rindexS ((s String) (t String)) Int
  (ite (< (str.indexof s t 0) 0) (- 1) (rlenS (str.substr s 0 (str.indexof s t 0)))))
; reference substring(start[,length]) on characters: [] outside [0,len), else the characters from
; start, at most length of them (length < 0 or beyond the end: to the end)
(define-fun subEnd ((s String) (start Int) (n Int)) Int
  (ite (and (> n (- 1)) (< (+ start n) (rlenS s))) (+ start n) (rlenS s)))
(define-fun strindex ((s String) (t String)) Int (str.indexof s t 0))
(define-fun strprefix ((p String) (s String)) Bool (str.prefixof p s))
(define-fun strsuffix ((p String) (s String)) Bool (str.suffixof p s))
(define-fun strcontains ((s String) (t String)) Bool (str.contains s t))
(define-fun strreplaceall ((s String) (a String) (b String)) String (str.replace_all s a b))
; number of capturing groups of a compiled regular expression (assumed: package regexp)
(declare-fun reNumSub (Int) Int)
(assert (forall ((r Int)) (! (>= (reNumSub r) 0) :pattern ((reNumSub r)))))
; whether a string names an R4 resource type (decided by the protofields registry)
(declare-fun isResourceTypeS (String) Bool)
; C19: resource identity comparison: the same pointer, or both non-nil with equal (type, id, version)
(define-fun identEq ((p Int) (pt String) (pi String) (pv String) (q Int) (qt String) (qi String) (qv String)) Bool
  (or (= p q) (and (not (= p 0)) (not (= q 0)) (= pt qt) (= pi qi) (= pv qv))))
; the parts strings.Split yields, named
(declare-fun splitLen (String String) Int)
(declare-fun splitAt (String String Int) String)
; a string literal's text between its quotes: one leading and one trailing apostrophe removed
(define-fun trimQuotes ((s String)) String
  (let ((a (ite (str.prefixof "'" s) (str.substr s 1 (- (str.len s) 1)) s)))
    (ite (str.suffixof "'" a) (str.substr a 0 (- (str.len a) 1)) a)))
; strings.ToLower, named; ASSUMED: the decimal rendering of an integer has no letters
(declare-fun lowerS (String) String)
(assert (forall ((n Int)) (= (lowerS (int_to_str n)) (int_to_str n))))
(assert (forall ((n Int)) (! (= (lowerS (str.++ "-" (str.from_int n))) (str.++ "-" (str.from_int n))) :pattern ((lowerS (str.++ "-" (str.from_int n)))))))
(define-fun boolTextTrue ((s String)) Bool (or (= s "true") (= s "t") (= s "yes") (= s "y") (= s "1") (= s "1.0")))
(define-fun boolTextFalse ((s String)) Bool (or (= s "false") (= s "f") (= s "no") (= s "n") (= s "0") (= s "0.0")))
; hexadecimal digit (as a byte / code point)
(define-fun isHexB ((c Int)) Bool (or (and (<= 48 c) (<= c 57)) (and (<= 97 c) (<= c 102)) (and (<= 65 c) (<= c 70))))
(declare-fun upperS (String) String)
; the collection distinct() yields, named (defined by impl.Distinct's contract)
(declare-fun distinctS (Slice_Any) Slice_Any)
; ground instances of the same fact (the solvers rewrite (str.from_int 1) to "1" before matching)
(assert (= (lowerS "0") "0"))
(assert (= (lowerS "1") "1"))
(assert (forall ((n Int)) (! (= (lowerS (str.from_int n)) (str.from_int n)) :pattern ((lowerS (str.from_int n))))))
; named (not interpreted): the k-th entry of the submatch-index vector of the leftmost match of a
; compiled pattern in a string, and strings.TrimRight
(declare-fun reIdx (Int String Int) Int)
(declare-fun trimRightS (String String) String)
