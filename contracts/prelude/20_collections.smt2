; Collection algebra (C10): collections are (array, length); criteria are evaluated through
; the deterministic naming evalRes/evalErr of Expression.Evaluate.
(define-fun single ((x Any)) Slice_Any
  (mk_Slice_Any (store ((as const (Array Int Any)) nil_any) 0 x) 1 1 true true))
; three-valued outcome of a criterion e on one item x: 0/1 value, 2 empty, 3 error
(define-fun critTV ((e Any) (K Int) (N Time) (x Any)) Int
  (ite (not (= (evalErr e K N (single x)) 0)) 3 (tvC (evalRes e K N (single x)))))
(define-fun keepW ((e Any) (K Int) (N Time) (x Any)) Bool (= (critTV e K N x) 1))
; number of kept items among the first i items of c
(define-fun-rec filtLen ((e Any) (K Int) (N Time) (c Slice_Any) (i Int)) Int
  (ite (<= i 0) 0
       (+ (filtLen e K N c (- i 1)) (ite (keepW e K N (select (arr_Any c) (- i 1))) 1 0))))
