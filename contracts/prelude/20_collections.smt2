; Collection algebra (C10): collections are (array, length); criteria are evaluated through
; the deterministic naming evalRes/evalErr of Expression.Evaluate.
(define-fun single ((x Any)) Slice_Any
  (mk_Slice_Any (store ((as const (Array Int Any)) nil_any) 0 x) 1 1 true true))
; three-valued outcome of a criterion e on one item x: 0/1 value, 2 empty, 3 error
(define-fun critTV ((e Any) (K Int) (N Time) (x Any)) Int
  (ite (not (= (evalErr e K N (single x)) 0)) 3 (tvC (evalRes e K N (single x)))))
(define-fun keepW ((e Any) (K Int) (N Time) (x Any)) Bool (= (critTV e K N x) 1))
; number of kept items among the first i items of c
(define-fun-rec filtLen ((e Any) (K Int) (N Time) (c Slice_Any) (i Int)) Int
  (ite (<= i 0) 0
       (+ (filtLen e K N c (- i 1)) (ite (keepW e K N (select (arr_Any c) (- i 1))) 1 0))))
; item equality as used by Collection.Contains: System equality after conversion when the
; probe converts, structural proto equality otherwise
(define-fun eqItem ((v Any) (x Any)) Bool
  (ite (fromOk x) (and (fromOk v) (sysEq (fromS v) (fromS x)))
       (and (isProtoMsg x) (isProtoMsg v) (protoEq v x))))
(define-fun containsS ((c Slice_Any) (x Any)) Bool
  (exists ((k!c Int)) (and (<= 0 k!c) (< k!c (len_Any c)) (eqItem (select (arr_Any c) k!c) x))))
; positional subsetting: take(n) keeps the first clampN(n) items, skip(n) drops them
(define-fun clampN ((n Int) (len Int)) Int (ite (<= n 0) 0 (ite (>= n len) len n)))
; select(e): per-item output; an item whose evaluation fails with ErrInvalidField is skipped
(declare-fun isFieldErr (Err) Bool)
(define-fun selOut ((e Any) (K Int) (N Time) (x Any)) Slice_Any (evalRes e K N (single x)))
(define-fun selErr ((e Any) (K Int) (N Time) (x Any)) Err (evalErr e K N (single x)))
(define-fun selLen ((e Any) (K Int) (N Time) (x Any)) Int
  (ite (= (selErr e K N x) 0) (len_Any (selOut e K N x)) 0))
; total length of the outputs of the first i items
(define-fun-rec concatLen ((e Any) (K Int) (N Time) (c Slice_Any) (i Int)) Int
  (ite (<= i 0) 0 (+ (concatLen e K N c (- i 1)) (selLen e K N (select (arr_Any c) (- i 1))))))
; number of skipped (field-error) items among the first i
(define-fun-rec fieldErrCount ((e Any) (K Int) (N Time) (c Slice_Any) (i Int)) Int
  (ite (<= i 0) 0 (+ (fieldErrCount e K N c (- i 1)) (ite (= (selErr e K N (select (arr_Any c) (- i 1))) 0) 0 1))))
; exclude(d): keep the items of c equal to no item of d
; keepE is declared and axiomatised rather than defined: exclLen is recursive, and a quantifier
; (the exists of containsS) inside the body of a recursive definition made z3 5.1.0 answer
; `unsat` on a satisfiable query (found by the seeded change exclude-dedups-result; DESIGN 13.3)
(declare-fun keepE (Slice_Any Any) Bool)
(assert (forall ((d Slice_Any) (x Any)) (! (= (keepE d x) (not (containsS d x))) :pattern ((keepE d x)))))
(define-fun-rec exclLen ((d Slice_Any) (c Slice_Any) (i Int)) Int
  (ite (<= i 0) 0 (+ (exclLen d c (- i 1)) (ite (keepE d (select (arr_Any c) (- i 1))) 1 0))))
; a path is the left fold of its steps (ExpressionSequence): result after the first i steps
(define-fun-rec seqRes ((es Slice_Any) (K Int) (N Time) (c Slice_Any) (i Int)) Slice_Any
  (ite (<= i 0) c (evalRes (select (arr_Any es) (- i 1)) K N (seqRes es K N c (- i 1)))))
(define-fun-rec seqOk ((es Slice_Any) (K Int) (N Time) (c Slice_Any) (i Int)) Bool
  (ite (<= i 0) true (and (seqOk es K N c (- i 1)) (= (evalErr (select (arr_Any es) (- i 1)) K N (seqRes es K N c (- i 1))) 0))))
