;@ uses-type protoreflect.Value
; protoreflect readers used by path navigation, as deterministic functions (named; the
; descriptor data and message contents they return are not interpreted)
(declare-fun pbGet (Any Any) X_protoreflect_Value)
(declare-fun pbListOf (X_protoreflect_Value) Any)
(declare-fun pbMsg (X_protoreflect_Value) Any)
(declare-fun pbLen (Any) Int)
(declare-fun pbAt (Any Int) X_protoreflect_Value)
(declare-fun pbIface (Any) Any)
(declare-fun pbIsList (Any) Bool)
(declare-fun snakeS (String) String)
; a repeated field holds fewer than 2^62 elements
(assert (forall ((l Any)) (! (and (>= (pbLen l) 0) (< (pbLen l) 4611686018427387904)) :pattern ((pbLen l)))))
(declare-fun pbOneofs (Any) Any)
(declare-fun pbOneofByName (Any String) Any)
(declare-fun pbWhichOneof (Any Any) Any)
(declare-fun camelS (String) String)
(declare-fun refGet (Int) Any)
(declare-fun lowerCamelS (String) String)
(declare-fun pbOneofsLen (Any) Int)
(declare-fun pbOneofsGet (Any Int) Any)
; ---- proto write model (C18, C20) ------------------------------------------------------
; Ghost state: pbw counts writes into *attached* protobuf state (anything not created by
; this activation through Message.New / Message.NewField / List.NewElement); pbw0 is its
; value at entry (content readers are only named while pbw == pbw0, i.e. before any such
; write); the last attached write is recorded (kind, message-or-list, field, value, and the
; version pbv of detached contents at that moment). pbv versions the contents of detached
; lists: dlLen/dlAt(version, list[, index]).
;@ ghost pbw Int
;@ ghost pbw0 Int
;@ ghost pbv Int
;@ ghost pbwKind Int
;@ ghost pbwMsg Any
;@ ghost pbwFld Any
;@ ghost pbwVal X_protoreflect_Value
;@ ghost pbwVer Int
(declare-fun pbDetM (Any) Bool)
(declare-fun pbDetV (X_protoreflect_Value) Bool)
(declare-fun pbDetL (Any) Bool)
(declare-fun dlLen (Int Any) Int)
(declare-fun dlAt (Int Any Int) X_protoreflect_Value)
(declare-fun pbHas (Any Any) Bool)
(declare-fun pbValOfMsg (Any) X_protoreflect_Value)
(declare-fun pbValOfList (Any) X_protoreflect_Value)
(declare-fun pbNew (Any) Any)
(assert (forall ((v Int) (l Any)) (! (>= (dlLen v l) 0) :pattern ((dlLen v l)))))
(declare-fun pbFieldsLen (Any) Int)
(declare-fun pbFieldsGet (Any Int) Any)
(declare-fun pbCard (Any) Int)
; ---- extensions (C20): the URL of an extension, by pointer (named results of the generated
; getters Extension.GetUrl and Uri.GetValue), and the number of extensions among the first i
; whose URL differs from u
(declare-fun extUrlP (Int) Int)
(declare-fun uriValS (Int) String)
(declare-fun extValP (Int) Int)
(declare-fun extsOf (Any) Slice_Int)
(define-fun extUrl ((p Int)) String (uriValS (extUrlP p)))
(define-fun-rec ukLen ((u String) (c Slice_Int) (i Int)) Int
  (ite (<= i 0) 0 (+ (ukLen u c (- i 1)) (ite (= (extUrl (select (arr_Int c) (- i 1))) u) 0 1))))
(declare-fun extRefl (Int) Any)
(declare-fun patchUnwrapS (Any) Any)
(declare-fun foUnwrapS (Any) Any)
; a protoreflect.Value that holds something (the zero Value does not; Message.Set panics on it)
(declare-fun pbValOK (X_protoreflect_Value) Bool)
