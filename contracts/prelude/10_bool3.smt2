;@ uses-type system.Boolean
; Three-valued logic of FHIRPath (C06). Encoding: 0 = false, 1 = true, 2 = empty/unknown, 3 = error (multi-item)
(define-fun TV_F () Int 0)
(define-fun TV_T () Int 1)
(define-fun TV_U () Int 2)
(define-fun TV_ERR () Int 3)
(define-fun isTV ((a Int)) Bool (and (<= 0 a) (<= a 2)))
; truth tables written out from the FHIRPath specification, section 6.5
(define-fun andT ((a Int) (b Int)) Int
  (ite (or (= a 0) (= b 0)) 0 (ite (and (= a 1) (= b 1)) 1 2)))
(define-fun orT ((a Int) (b Int)) Int
  (ite (or (= a 1) (= b 1)) 1 (ite (and (= a 0) (= b 0)) 0 2)))
(define-fun xorT ((a Int) (b Int)) Int
  (ite (or (= a 2) (= b 2)) 2 (ite (= a b) 0 1)))
(define-fun impT ((a Int) (b Int)) Int
  (ite (= a 0) 1 (ite (= b 1) 1 (ite (and (= a 1) (= b 0)) 0 2))))
(define-fun notT ((a Int)) Int (ite (= a 2) 2 (- 1 a)))
; value of a []Boolean of length <= 1 (the result of singleton evaluation)
(define-fun tvB ((s Slice_Bool)) Int
  (ite (= (len_Bool s) 0) 2 (ite (select (arr_Bool s) 0) 1 0)))
; value of a result collection: empty -> U, [Boolean b] -> b, anything else -> 3
(define-fun collTV ((c Slice_Any)) Int
  (ite (= (len_Any c) 0) 2
    (ite (and (= (len_Any c) 1) ((_ is b_system_Boolean) (select (arr_Any c) 0)))
         (ite (ub_system_Boolean (select (arr_Any c) 0)) 1 0)
         3)))
; singleton evaluation of a collection as a Boolean (FHIRPath 4.5): empty -> U; one item ->
; its Boolean value if it is (convertible by system.From to) a System Boolean, else true;
; more than one item -> error
(define-fun tvC ((c Slice_Any)) Int
  (ite (= (len_Any c) 0) 2
    (ite (> (len_Any c) 1) 3
      (let ((v (fromS (select (arr_Any c) 0))))
        (ite (and (fromOk (select (arr_Any c) 0)) ((_ is b_system_Boolean) v))
             (ite (ub_system_Boolean v) 1 0)
             1)))))
