#!/usr/bin/env python3
"""Writes the init() contract of package funcs from contracts/n1_functions.json (the spec
table taken from the FHIRPath N1 function list). The output is pasted into
/repo/fhirpath/internal/funcs/verif_contracts.go; the contract, not this script, is what
the checker reads."""
import json
t = json.load(open('/verif/contracts/n1_functions.json'))
out = []
def entry(tab, name, impl, lo, hi):
    if impl is None:
        out.append('//@   ensures haskey(%s, "%s") && %s["%s"].Func == unimplemented' % (tab, name, tab, name))
    else:
        out.append('//@   ensures haskey(%s, "%s") && %s["%s"].Func == impl.%s && %s["%s"].MinArity == %d && %s["%s"].MaxArity == %d' % (tab, name, tab, name, impl, tab, name, lo, tab, name, hi))
for n, (impl, lo, hi) in t['base'].items():
    entry('baseTable', n, impl, lo, hi)
names = ' || '.join('s == "%s"' % n for n in t['base'])
out.append('//@   ensures forall s string :: haskey(baseTable, s) ==> ' + names)
for n, (impl, lo, hi) in t['experimental'].items():
    entry('experimentalTable', n, impl, lo, hi)
names = ' || '.join('s == "%s"' % n for n in t['experimental'])
out.append('//@   ensures forall s string :: haskey(experimentalTable, s) ==> ' + names)
print('\n'.join(out))
