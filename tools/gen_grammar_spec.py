#!/usr/bin/env python3
# Writes /verif/contracts/ext/grammar.spec: the assumed contracts on the ANTLR-generated
# parse-tree accessors the visitor calls (one entry per accessor; formulaic, so generated).
G = "github.com/verily-src/fhirpath-go/fhirpath/internal/grammar"
A = "github.com/antlr4-go/antlr/v4"
out = []
out.append("""# Assumed contracts on the ANTLR runtime and the ANTLR-generated parse-tree accessors
# (fhirpath/internal/grammar is generated code). Written by tools/gen_grammar_spec.py.
# ASSUMPTION (grammar-shaped output): a tree handed to the visitor was returned by
# compile.Tree without a syntax error, so every child a rule alternative requires is present
# and is of the rule's kind. treeKind(n) names what visiting n yields (1 *VisitResult,
# 2 *typeResult, 3 []*VisitResult, 4 []string). Sampled by ./check conformance (a corpus of
# expressions is parsed and every context node's shape is compared with these entries).
func (*%s.BaseParserRuleContext).GetChild(prc, i) (r)
  defines r == childOf(prc, i)
  assigns nothing
func (*%s.BaseParserRuleContext).GetText(prc) (r)
  defines r == ctxText(prc)
  assigns nothing
iface %s.ParseTree.GetText(n) (r)
  defines r == nodeText(n)
  assigns nothing""" % (A, A, A))
def acc(ctx, name, params, ens):
    out.append("func (*%s.%s).%s(%s) (r)\n  requires s != nil\n  ensures %s\n  assigns nothing" % (G, ctx, name, ", ".join(["s"] + params), ens))
for c in ["IndexerExpression", "AdditiveExpression", "MultiplicativeExpression", "OrExpression", "AndExpression",
          "InequalityExpression", "EqualityExpression", "ImpliesExpression"]:
    acc(c + "Context", "Expression", ["i"], "0 <= i && i < 2 ==> r != nil && treeKind(r) == 1")
for c in ["Prog", "PolarityExpression", "InvocationExpression", "TypeExpression", "ParenthesizedTerm"]:
    acc(c + "Context", "Expression", [], "r != nil && treeKind(r) == 1")
acc("InvocationExpressionContext", "Invocation", [], "r != nil && treeKind(r) == 1")
acc("InvocationTermContext", "Invocation", [], "r != nil && treeKind(r) == 1")
acc("TermExpressionContext", "Term", [], "r != nil && treeKind(r) == 1")
acc("LiteralTermContext", "Literal", [], "r != nil && treeKind(r) == 1")
acc("FunctionInvocationContext", "Function", [], "r != nil && treeKind(r) == 1")
acc("TypeExpressionContext", "TypeSpecifier", [], "r != nil && treeKind(r) == 2")
acc("TypeSpecifierContext", "QualifiedIdentifier", [], "r != nil && treeKind(r) == 4")
acc("ExternalConstantTermContext", "ExternalConstant", [], "r != nil")
out.append("func (*%s.FunctionContext).Identifier(s) (r)\n  requires s != nil\n  defines r == g4Ident(s)\n  ensures r != nil\n  assigns nothing" % G)
out.append("func (*%s.FunctionContext).ParamList(s) (r)\n  requires s != nil\n  defines r == g4ParamList(s)\n  ensures r != nil ==> treeKind(r) == 3\n  assigns nothing" % G)
acc("QuantityLiteralContext", "Quantity", [], "r != nil")
for c, t in [("StringLiteral", "STRING"), ("NumberLiteral", "NUMBER"), ("DateLiteral", "DATE"), ("DateTimeLiteral", "DATETIME"), ("TimeLiteral", "TIME")]:
    acc(c + "Context", t, [], "r != nil")
acc("ParamListContext", "AllExpression", [], "len(r) == g4NParamsP(s) && (forall k int :: 0 <= k && k < len(r) ==> r[k] != nil && treeKind(r[k]) == 1)")
acc("QualifiedIdentifierContext", "AllIdentifier", [], "forall k int :: 0 <= k && k < len(r) ==> r[k] != nil")
out.append("iface %s.IQuantityContext.Unit(q) (r)\n  ensures r != nil\n  assigns nothing" % G)
out.append("iface %s.IQuantityContext.NUMBER(q) (r)\n  ensures r != nil\n  assigns nothing" % G)
open("/verif/contracts/ext/grammar.spec", "w").write("\n".join(out) + "\n")
