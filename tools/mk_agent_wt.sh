#!/bin/sh
# usage: tools/mk_agent_wt.sh <dir>   — scratch worktree of /repo's HEAD for a sub-agent, with the
# guarded contract files hidden (skip-worktree + removed) so that nothing of the machinery leaks.
d=$1
git -C /repo worktree add -q --detach $d HEAD || exit 2
cd $d
for f in $(git ls-files | grep 'verif_contracts.go$'); do git update-index --skip-worktree $f; rm -f $f; done
echo $d
